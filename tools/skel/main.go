// skel: static skeleton extraction for C09.
//
// For every type of package sarama that has an `encode(pe packetEncoder[, version int16])` /
// `decode(pd packetDecoder[, version int16])` method pair, the tool reads the two method bodies from the Go
// AST and writes, as Lean data, the tree of primitive put*/get* calls on the encoder/decoder argument with
// its control structure: version conditions, value-dependent alternatives (encode side), count-prefixed
// loops, push/pop of length / CRC fields, nested encode/decode calls (inlined).  Anything that does not fit
// a recognised statement form becomes `unsupported "<reason>"`.
//
//	skel -repo /repo -schemas lean/SaramaVerif/Model/CodecSchemas.lean \
//	     -out lean/SaramaVerif/Gen/C09Skel.lean -bridge lean/SaramaVerif/Bridge/C09Skel.lean
//
// stdlib only (go/ast, go/parser, go/printer, go/token); deterministic (everything is sorted); the Go
// identifiers survive only as comments of the generated file.
package main

import (
	"bytes"
	"flag"
	"fmt"
	"go/ast"
	"go/parser"
	"go/printer"
	"go/token"
	"io/ioutil"
	"os"
	"path/filepath"
	"regexp"
	"sort"
	"strconv"
	"strings"
)

// ------------------------------------------------------------------------------------------------
// intermediate representation

// Cond: a condition as written in the source. Atoms: comparisons of "the version" with an integer literal,
// and `data` (anything that depends on the value being encoded).
type Cond struct {
	Op   string // tt ff ge gt le lt eq ne not and or data
	N    int
	A, B *Cond
}

func (c *Cond) pure() bool {
	switch c.Op {
	case "data":
		return false
	case "not":
		return c.A.pure()
	case "and", "or":
		return c.A.pure() && c.B.pure()
	}
	return true
}

func (c *Cond) lean() string {
	switch c.Op {
	case "tt", "ff":
		return "." + c.Op
	case "ge", "gt", "le", "lt", "eq", "ne":
		return fmt.Sprintf("(.%s %d)", c.Op, c.N)
	case "not":
		return "(.not " + c.A.lean() + ")"
	case "and", "or":
		return "(." + c.Op + " " + c.A.lean() + " " + c.B.lean() + ")"
	}
	return "<data>"
}

// CS: how the element count of an array is written / read.
type CS struct {
	Op   string // cnt nul sel dsel
	K    string // i32 i32raw compact uvarintRaw varint
	C    *Cond
	A, B *CS
}

func (c *CS) lean() string {
	switch c.Op {
	case "cnt", "nul":
		return "(." + c.Op + " ." + c.K + ")"
	case "sel":
		return "(.sel " + c.C.lean() + " " + c.A.lean() + " " + c.B.lean() + ")"
	}
	return "(.dsel " + c.A.lean() + " " + c.B.lean() + ")"
}

type Node struct {
	Kind    string // skip prim lit seq ifv alt array len32 varlen crc unsupported | pseudo: count loop call push pop
	Prim    string
	Lit     string
	Cond    *Cond
	A, B    *Node
	Items   []*Node
	CS      *CS
	Accept  bool // decode side: a negative / null count is tolerated
	Poly    string
	Reason  string
	Comment string
	Over    string // count / loop: the collection (encode) or the count variable (decode)
	Var     string // decode: the local variable the value is assigned to
	Adjust  int    // decode: the count is this value plus Adjust (uvarint - 1)
	FixedV  int    // call / atver: the version the callee runs at (-1: the current one)
	CallT   string
	CallM   string
	CallV   bool // the callee takes a version argument
}

var skipNode = &Node{Kind: "skip"}

// words the audit of the Lean sources greps for must not leak from Go source text into the generated strings
var auditWords = regexp.MustCompile(`\b(sorry|admit|native_decide|bv_decide|implemented_by|unsafe|axiom|maxHeartbeats)\b`)

func unsup(format string, a ...interface{}) *Node {
	r := fmt.Sprintf(format, a...)
	r = auditWords.ReplaceAllStringFunc(r, func(w string) string { return w[:1] + "_" + w[1:] })
	r = strings.ReplaceAll(r, "--", "- -")
	return &Node{Kind: "unsupported", Reason: r}
}

var leanIdent = regexp.MustCompile(`^[A-Za-z_][A-Za-z0-9_]*$`)
var leanKeywords = map[string]bool{"end": true, "at": true, "from": true, "fun": true, "in": true, "do": true, "then": true,
	"else": true, "if": true, "let": true, "have": true, "show": true, "match": true, "with": true, "where": true,
	"def": true, "theorem": true, "open": true, "import": true, "namespace": true, "section": true, "variable": true,
	"instance": true, "structure": true, "class": true, "inductive": true, "deriving": true, "mutual": true, "Type": true,
	"Prop": true, "Sort": true, "by": true, "for": true, "return": true, "example": true, "abbrev": true, "macro": true}

// leanName: a Go type name as a Lean identifier component
func leanName(s string) string {
	if leanIdent.MatchString(s) && !leanKeywords[s] {
		return s
	}
	return "«" + s + "»"
}

func seq(items []*Node) *Node {
	var out []*Node
	var add func(n *Node)
	add = func(n *Node) {
		switch n.Kind {
		case "skip":
		case "seq":
			for _, i := range n.Items {
				add(i)
			}
		default:
			out = append(out, n)
		}
	}
	for _, i := range items {
		add(i)
	}
	if len(out) == 0 {
		return skipNode
	}
	if len(out) == 1 {
		return out[0]
	}
	return &Node{Kind: "seq", Items: out}
}

func itemsOf(n *Node) []*Node {
	switch n.Kind {
	case "skip":
		return nil
	case "seq":
		return n.Items
	}
	return []*Node{n}
}

// ------------------------------------------------------------------------------------------------
// the package

type method struct {
	typ, name, file string
	decl            *ast.FuncDecl
}

type global struct {
	fset           *token.FileSet
	structs        map[string]map[string]ast.Expr
	typedef        map[string]ast.Expr
	meths          map[string]*method // "T.encode" / "T.decode"
	hasKey         map[string]bool    // types with a key() method: protocol bodies
	versionIsField map[string]bool    // version() is `return r.Version`
	ownVersion     map[string]bool    // "T.encode": the method reads recv.Version
	skel           map[string]*Node   // translated, before inlining
	inl            map[string]*Node   // after inlining
	busy           map[string]bool
}

func (g *global) print(n ast.Node) string {
	var b bytes.Buffer
	printer.Fprint(&b, g.fset, n)
	s := b.String()
	s = strings.Join(strings.Fields(s), " ")
	return s
}

func recvType(fd *ast.FuncDecl) (name, typ string) {
	if fd.Recv == nil || len(fd.Recv.List) != 1 {
		return "", ""
	}
	f := fd.Recv.List[0]
	if len(f.Names) == 1 {
		name = f.Names[0].Name
	}
	t := f.Type
	if s, ok := t.(*ast.StarExpr); ok {
		t = s.X
	}
	if id, ok := t.(*ast.Ident); ok {
		typ = id.Name
	}
	return
}

func isNamed(e ast.Expr, name string) bool {
	id, ok := e.(*ast.Ident)
	return ok && id.Name == name
}

func load(repo string) (*global, error) {
	g := &global{fset: token.NewFileSet(), structs: map[string]map[string]ast.Expr{}, typedef: map[string]ast.Expr{},
		meths: map[string]*method{}, hasKey: map[string]bool{}, versionIsField: map[string]bool{}, ownVersion: map[string]bool{}, skel: map[string]*Node{}, inl: map[string]*Node{}, busy: map[string]bool{}}
	files, err := filepath.Glob(filepath.Join(repo, "*.go"))
	if err != nil {
		return nil, err
	}
	sort.Strings(files)
	for _, fn := range files {
		base := filepath.Base(fn)
		if strings.HasSuffix(base, "_test.go") || strings.HasPrefix(base, "zz_verif_") {
			continue
		}
		f, err := parser.ParseFile(g.fset, fn, nil, 0)
		if err != nil {
			return nil, err
		}
		if f.Name.Name != "sarama" {
			continue
		}
		for _, d := range f.Decls {
			switch d := d.(type) {
			case *ast.GenDecl:
				if d.Tok != token.TYPE {
					continue
				}
				for _, sp := range d.Specs {
					ts := sp.(*ast.TypeSpec)
					if st, ok := ts.Type.(*ast.StructType); ok {
						m := map[string]ast.Expr{}
						for _, fl := range st.Fields.List {
							for _, nm := range fl.Names {
								m[nm.Name] = fl.Type
							}
							if len(fl.Names) == 0 { // embedded
								if id, ok := deref(fl.Type).(*ast.Ident); ok {
									m[id.Name] = fl.Type
								}
							}
						}
						g.structs[ts.Name.Name] = m
					} else {
						g.typedef[ts.Name.Name] = ts.Type
					}
				}
			case *ast.FuncDecl:
				_, typ := recvType(d)
				if typ == "" || d.Body == nil {
					continue
				}
				if d.Name.Name == "key" {
					g.hasKey[typ] = true
				}
				if d.Name.Name == "version" && len(d.Body.List) == 1 {
					rn, _ := recvType(d)
					if r, ok := d.Body.List[0].(*ast.ReturnStmt); ok && len(r.Results) == 1 {
						if se, ok := r.Results[0].(*ast.SelectorExpr); ok && se.Sel.Name == "Version" && isNamed(se.X, rn) {
							g.versionIsField[typ] = true
						}
					}
				}
				if d.Name.Name != "encode" && d.Name.Name != "decode" {
					continue
				}
				ps := d.Type.Params.List
				if len(ps) == 0 || len(ps[0].Names) != 1 {
					continue
				}
				want := "packetEncoder"
				if d.Name.Name == "decode" {
					want = "packetDecoder"
				}
				if !isNamed(ps[0].Type, want) {
					continue
				}
				g.meths[typ+"."+d.Name.Name] = &method{typ: typ, name: d.Name.Name, file: base, decl: d}
			}
		}
	}
	return g, nil
}

// ------------------------------------------------------------------------------------------------
// per-method translation

type tr struct {
	g           *global
	side        string // enc | dec
	recv        string
	io          string
	verParam    string
	boolVars    map[string]*Cond
	verAlias    map[string]bool
	locals      map[string]ast.Expr
	countAlias  map[string]string // encode: local := len(X)
	nullAlias   map[string]bool   // encode: that local may be set to -1
	rejectNeg   map[string]bool   // decode: `if n < 0 { return err }`
	zeroExit    map[string]bool   // decode: `if n == 0 { return nil }`
	pushVars    map[string]*Node
	makeOf      map[string]string // decode: printed `X` of `X = make(T, n)` → n
	collAlias   map[string]string // encode: keys collected from a map (`for k := range M { keys = append(keys, k) }`) → M
	fixedVer    map[string]int    // local := &T{Version: N, …}
	recvTyp     string
	verSet      map[string]bool // printed X of `X.Version = <current version>`
	ownAssigned bool            // decode: recv.Version = version
	ownVer      bool            // the method reads recv.Version
	verOnWire   string          // recv.Version is itself read from / written to the wire
	last        *Node           // the most recent item that assigned a local variable
}

var encPrims = map[string]string{
	"putInt8": "i8", "putInt16": "i16", "putInt32": "i32", "putInt64": "i64", "putVarint": "varint", "putUVarint": "uvarint",
	"putBool": "bool", "putBytes": "bytes", "putVarintBytes": "vbytes", "putCompactBytes": "cbytes",
	"putCompactString": "cstr", "putNullableCompactString": "ncstr", "putString": "str", "putNullableString": "nstr",
	"putStringArray": "strarr", "putCompactInt32Array": "ci32arr", "putNullableCompactInt32Array": "nci32arr",
	"putInt32Array": "i32arr", "putInt64Array": "i64arr", "putEmptyTaggedFieldArray": "tagged",
}

// getCompactInt32Array returns nil for the null array: it is the nullable getter
var decPrims = map[string]string{
	"getInt8": "i8", "getInt16": "i16", "getInt32": "i32", "getInt64": "i64", "getVarint": "varint", "getUVarint": "uvarint",
	"getBool": "bool", "getBytes": "bytes", "getVarintBytes": "vbytes", "getCompactBytes": "cbytes",
	"getCompactString": "cstr", "getCompactNullableString": "ncstr", "getString": "str", "getNullableString": "nstr",
	"getStringArray": "strarr", "getCompactInt32Array": "nci32arr",
	"getInt32Array": "i32arr", "getInt64Array": "i64arr", "getEmptyTaggedFieldArray": "tagged",
}

func (t *tr) print(n ast.Node) string { return t.g.print(n) }

// number of uses of the encoder/decoder argument, and how many of them are remaining()/offset() calls
func (t *tr) ioUses(n ast.Node) (all, harmless int) {
	if n == nil {
		return
	}
	ast.Inspect(n, func(x ast.Node) bool {
		switch x := x.(type) {
		case *ast.Ident:
			if x.Name == t.io {
				all++
			}
		case *ast.CallExpr:
			if se, ok := x.Fun.(*ast.SelectorExpr); ok && isNamed(se.X, t.io) &&
				(se.Sel.Name == "remaining" || se.Sel.Name == "offset" || se.Sel.Name == "metricRegistry") {
				harmless++
			}
		}
		return true
	})
	return
}

func (t *tr) wireFree(n ast.Node) bool {
	if n == nil || n == ast.Node((*ast.BlockStmt)(nil)) {
		return true
	}
	a, h := t.ioUses(n)
	return a == h
}

func isNil(e ast.Expr) bool { return isNamed(e, "nil") }

func isReturnNil(s ast.Stmt) bool {
	r, ok := s.(*ast.ReturnStmt)
	return ok && len(r.Results) == 1 && isNil(r.Results[0])
}

func endsReturnNil(b *ast.BlockStmt) bool {
	return b != nil && len(b.List) > 0 && isReturnNil(b.List[len(b.List)-1])
}

func containsReturnNil(n ast.Node) bool {
	found := false
	if n == nil {
		return false
	}
	ast.Inspect(n, func(x ast.Node) bool {
		if _, ok := x.(*ast.FuncLit); ok {
			return false
		}
		if s, ok := x.(ast.Stmt); ok && isReturnNil(s) {
			found = true
		}
		return true
	})
	return found
}

func containsReturn(n ast.Node) bool {
	found := false
	ast.Inspect(n, func(x ast.Node) bool {
		if _, ok := x.(*ast.FuncLit); ok {
			return false
		}
		if _, ok := x.(*ast.ReturnStmt); ok {
			found = true
		}
		return true
	})
	return found
}

func unparen(e ast.Expr) ast.Expr {
	for {
		p, ok := e.(*ast.ParenExpr)
		if !ok {
			return e
		}
		e = p.X
	}
}

// strips integer conversions: int(x), int64(x), …
func unconv(e ast.Expr) ast.Expr {
	e = unparen(e)
	if c, ok := e.(*ast.CallExpr); ok && len(c.Args) == 1 {
		if id, ok := c.Fun.(*ast.Ident); ok {
			switch id.Name {
			case "int", "int8", "int16", "int32", "int64", "uint64", "uint32":
				return unconv(c.Args[0])
			}
		}
	}
	return e
}

func intLit(e ast.Expr) (int, bool) {
	e = unconv(e)
	neg := false
	if u, ok := e.(*ast.UnaryExpr); ok && u.Op == token.SUB {
		neg = true
		e = unparen(u.X)
	}
	if b, ok := e.(*ast.BasicLit); ok && b.Kind == token.INT {
		n, err := strconv.Atoi(b.Value)
		if err != nil {
			return 0, false
		}
		if neg {
			n = -n
		}
		return n, true
	}
	return 0, false
}

func (t *tr) isVersion(e ast.Expr) bool {
	e = unconv(e)
	switch e := e.(type) {
	case *ast.Ident:
		return (t.verParam != "" && e.Name == t.verParam) || t.verAlias[e.Name]
	case *ast.SelectorExpr:
		if e.Sel.Name == "Version" && isNamed(e.X, t.recv) {
			t.ownVer = true
			return true
		}
	case *ast.CallExpr:
		// r.version() where the method is `return r.Version`
		if se, ok := e.Fun.(*ast.SelectorExpr); ok && len(e.Args) == 0 && se.Sel.Name == "version" && isNamed(se.X, t.recv) &&
			t.g.versionIsField[t.recvTyp] {
			t.ownVer = true
			return true
		}
	}
	return false
}

var flipOp = map[string]string{"ge": "le", "gt": "lt", "le": "ge", "lt": "gt", "eq": "eq", "ne": "ne"}
var tokOp = map[token.Token]string{token.GEQ: "ge", token.GTR: "gt", token.LEQ: "le", token.LSS: "lt", token.EQL: "eq", token.NEQ: "ne"}

// cond: nil when the condition touches the wire
func (t *tr) cond(e ast.Expr) *Cond {
	e = unparen(e)
	switch x := e.(type) {
	case *ast.Ident:
		if c, ok := t.boolVars[x.Name]; ok {
			return c
		}
		if x.Name == "true" {
			return &Cond{Op: "tt"}
		}
		if x.Name == "false" {
			return &Cond{Op: "ff"}
		}
	case *ast.UnaryExpr:
		if x.Op == token.NOT {
			a := t.cond(x.X)
			if a == nil {
				return nil
			}
			return &Cond{Op: "not", A: a}
		}
	case *ast.BinaryExpr:
		if x.Op == token.LAND || x.Op == token.LOR {
			a, b := t.cond(x.X), t.cond(x.Y)
			if a == nil || b == nil {
				return nil
			}
			op := "and"
			if x.Op == token.LOR {
				op = "or"
			}
			return &Cond{Op: op, A: a, B: b}
		}
		if op, ok := tokOp[x.Op]; ok {
			if t.isVersion(x.X) {
				if n, ok := intLit(x.Y); ok && n >= 0 {
					return &Cond{Op: op, N: n}
				}
			}
			if t.isVersion(x.Y) {
				if n, ok := intLit(x.X); ok && n >= 0 {
					return &Cond{Op: flipOp[op], N: n}
				}
			}
		}
	}
	if !t.wireFree(e) {
		return nil
	}
	// a condition that mentions the version in an unrecognised way must not be taken for a data condition
	mentions := false
	ast.Inspect(e, func(n ast.Node) bool {
		if ex, ok := n.(ast.Expr); ok && t.isVersion(ex) {
			mentions = true
		}
		if id, ok := n.(*ast.Ident); ok {
			if _, isb := t.boolVars[id.Name]; isb {
				mentions = true
			}
		}
		return true
	})
	if mentions {
		return nil
	}
	return &Cond{Op: "data"}
}

// ---- light-weight type inference (enough to find the receiver type of nested encode/decode calls)

func (t *tr) resolve(ty ast.Expr) ast.Expr {
	for i := 0; i < 8; i++ {
		id, ok := ty.(*ast.Ident)
		if !ok {
			return ty
		}
		u, ok := t.g.typedef[id.Name]
		if !ok {
			return ty
		}
		ty = u
	}
	return ty
}

func deref(ty ast.Expr) ast.Expr {
	if s, ok := ty.(*ast.StarExpr); ok {
		return s.X
	}
	return ty
}

func (t *tr) typeOf(e ast.Expr) ast.Expr {
	switch x := unparen(e).(type) {
	case *ast.Ident:
		return t.locals[x.Name]
	case *ast.SelectorExpr:
		base := t.typeOf(x.X)
		if base == nil {
			return nil
		}
		if id, ok := deref(base).(*ast.Ident); ok {
			if st, ok := t.g.structs[id.Name]; ok {
				return st[x.Sel.Name]
			}
		}
	case *ast.IndexExpr:
		c := t.typeOf(x.X)
		if c == nil {
			return nil
		}
		switch ct := t.resolve(deref(c)).(type) {
		case *ast.ArrayType:
			return ct.Elt
		case *ast.MapType:
			return ct.Value
		}
	case *ast.StarExpr:
		if b := t.typeOf(x.X); b != nil {
			return deref(b)
		}
	case *ast.UnaryExpr:
		if x.Op == token.AND {
			if b := t.typeOf(x.X); b != nil {
				return &ast.StarExpr{X: b}
			}
		}
	case *ast.CompositeLit:
		return x.Type
	case *ast.CallExpr:
		if id, ok := x.Fun.(*ast.Ident); ok && len(x.Args) >= 1 {
			if id.Name == "new" {
				return &ast.StarExpr{X: x.Args[0]}
			}
			if id.Name == "make" {
				return x.Args[0]
			}
		}
	}
	return nil
}

func (t *tr) typeName(e ast.Expr) string {
	ty := t.typeOf(e)
	if ty == nil {
		return ""
	}
	if id, ok := deref(ty).(*ast.Ident); ok {
		return id.Name
	}
	return ""
}

func (t *tr) bindRange(s *ast.RangeStmt) {
	c := t.typeOf(s.X)
	if c == nil {
		return
	}
	var k, v ast.Expr
	switch ct := t.resolve(deref(c)).(type) {
	case *ast.ArrayType:
		k, v = ast.NewIdent("int"), ct.Elt
	case *ast.MapType:
		k, v = ct.Key, ct.Value
	}
	if id, ok := s.Key.(*ast.Ident); ok && k != nil {
		t.locals[id.Name] = k
	}
	if s.Value != nil {
		if id, ok := s.Value.(*ast.Ident); ok && v != nil {
			t.locals[id.Name] = v
		}
	}
}

// ---- statements

func short(s string) string {
	if len(s) > 90 {
		return s[:87] + "..."
	}
	return s
}

const (
	ctxTop   = iota // the method body: `return nil` leaves it
	ctxLoop         // a loop body: `continue` leaves it
	ctxInner        // a branch: leaving it early also skips what follows the enclosing statement
)

// exitOf: "" no exit; "ok": the statement ends the enclosing method (return nil / bare return / return <wire call>)
// or loop body (continue) successfully; "err": return of an error value; "break"
func (t *tr) exitOf(s ast.Stmt) string {
	switch x := s.(type) {
	case *ast.ReturnStmt:
		if len(x.Results) == 0 {
			return "return"
		}
		if len(x.Results) == 1 {
			if isNil(x.Results[0]) {
				return "return"
			}
			if c, ok := unparen(x.Results[0]).(*ast.CallExpr); ok && !t.wireFree(c) {
				return "return"
			}
			// `return err`: the result of the preceding call - ends the method on success too
			if isNamed(x.Results[0], "err") {
				return "return"
			}
		}
		return "err"
	case *ast.BranchStmt:
		if x.Tok == token.CONTINUE && x.Label == nil {
			return "continue"
		}
		return "break"
	}
	return ""
}

// a successful early exit somewhere inside n (not counting nested function literals; continue/break of nested loops
// do not leave n)
func (t *tr) containsExit(n ast.Node) bool {
	found := false
	var walk func(n ast.Node, inLoop bool)
	walk = func(n ast.Node, inLoop bool) {
		ast.Inspect(n, func(x ast.Node) bool {
			switch y := x.(type) {
			case *ast.FuncLit:
				return false
			case *ast.ForStmt:
				if y != n {
					walk(y.Body, true)
					return false
				}
			case *ast.RangeStmt:
				if y != n {
					walk(y.Body, true)
					return false
				}
			case *ast.IfStmt:
				// `if …; err != nil { return … }` is an error path
				if isErrNotNil(y.Cond) && t.wireFree(y.Body) {
					if y.Else != nil {
						walk(y.Else, inLoop)
					}
					return false
				}
			case *ast.SwitchStmt:
				if y != n {
					// break inside a switch leaves the switch only
					walk(y.Body, true)
					return false
				}
			case ast.Stmt:
				switch t.exitOf(y) {
				case "return":
					found = true
				case "continue", "break":
					if !inLoop {
						found = true
					}
				}
			}
			return true
		})
	}
	walk(n, false)
	return found
}

// the condition is exactly `err != nil`
func isErrNotNil(e ast.Expr) bool {
	b, ok := unparen(e).(*ast.BinaryExpr)
	return ok && b.Op == token.NEQ && isNamed(b.X, "err") && isNil(b.Y)
}

func (t *tr) block(stmts []ast.Stmt, ctx int) []*Node {
	var items []*Node
	check := ctx != ctxInner
	for i := 0; i < len(stmts); i++ {
		s := stmts[i]
		if ifs, ok := s.(*ast.IfStmt); ok && ifs.Else == nil && len(ifs.Body.List) > 0 {
			lastS := ifs.Body.List[len(ifs.Body.List)-1]
			ex := t.exitOf(lastS)
			if ex == "return" || ex == "continue" {
				// `if err != nil || C { return err }`: the error path shares the exit of C
				cond := ifs.Cond
				if be, ok := unparen(cond).(*ast.BinaryExpr); ok && be.Op == token.LOR && isErrNotNil(be.X) {
					cond = be.Y
				}
				src := short(t.print(ifs.Cond))
				if ifs.Init != nil {
					items = append(items, t.stmt(ifs.Init)...)
				}
				body := ifs.Body.List[:len(ifs.Body.List)-1]
				bodyFree := t.wireFree(lastS)
				for _, b := range body {
					if !t.wireFree(b) || t.containsExit(b) {
						bodyFree = false
					}
				}
				if bodyFree && isErrNotNil(cond) {
					// an error path (whatever it returns)
					continue
				}
				valid := (ctx == ctxTop && ex == "return") || (ctx == ctxLoop && ex == "continue")
				if !valid {
					items = append(items, unsup("early %s inside a nested block: if %s", ex, src))
					return t.merge(items, check)
				}
				if v := t.countGuard(cond, "exit"); v != "" && bodyFree {
					// `if n == 0 { return nil }` / `if n == -1 { continue }`: nothing but the loop over n may follow
					// (checked in merge)
					t.zeroExit[v] = true
					continue
				}
				restFree := true
				for _, r := range stmts[i+1:] {
					if !t.wireFree(r) {
						restFree = false
					}
				}
				if bodyFree && restFree {
					// nothing on the wire depends on this exit
					continue
				}
				c := t.cond(cond)
				if c == nil {
					items = append(items, unsup("condition reads the wire or mixes the version with other data: %s", src))
					return t.merge(items, check)
				}
				if t.side == "dec" && !c.pure() {
					items = append(items, unsup("value-dependent early %s in decode: %s", ex, src))
					return t.merge(items, check)
				}
				tItems := t.block(body, ctxInner)
				if r, ok := lastS.(*ast.ReturnStmt); ok {
					tItems = append(tItems, t.ret(r)...)
				}
				T := seq(t.merge(tItems, false))
				E := seq(t.block(stmts[i+1:], ctx))
				items = append(items, t.mkIf(c, T, E, src))
				return t.merge(items, check)
			}
		}
		switch t.exitOf(s) {
		case "return", "err":
			items = append(items, t.ret(s.(*ast.ReturnStmt))...)
			return t.merge(items, check)
		case "continue":
			if ctx == ctxLoop {
				return t.merge(items, check)
			}
			items = append(items, unsup("continue inside a nested block"))
			return t.merge(items, check)
		case "break":
			items = append(items, unsup("break"))
			return t.merge(items, check)
		}
		items = append(items, t.stmt(s)...)
	}
	return t.merge(items, check)
}

func (t *tr) ret(r *ast.ReturnStmt) []*Node {
	if len(r.Results) == 1 {
		if c, ok := unparen(r.Results[0]).(*ast.CallExpr); ok && !t.wireFree(c) {
			return t.call(c, nil)
		}
	}
	if !t.wireFree(r) {
		return []*Node{unsup("return statement uses the wire: %s", short(t.print(r)))}
	}
	return nil
}

// the condition only looks at `err`
func (t *tr) isErrCheck(e ast.Expr) bool {
	ok := true
	seen := false
	ast.Inspect(e, func(n ast.Node) bool {
		if id, isId := n.(*ast.Ident); isId {
			switch {
			case id.Name == "err":
				seen = true
			case id.Name == "nil", strings.HasPrefix(id.Name, "Err"), strings.HasPrefix(id.Name, "err"):
			default:
				ok = false
			}
		}
		return true
	})
	return ok && seen
}

// countGuard recognises conditions on a (decode-side) count variable:
//
//	kind "neg":  n < 0            kind "zero": n == 0 | n <= 0 | n < 1       kind "pos": n > 0 | n != 0 | n >= 1
//
// and returns the variable.
func (t *tr) countGuard(e ast.Expr, kind string) string {
	if t.side != "dec" {
		return ""
	}
	b, ok := unparen(e).(*ast.BinaryExpr)
	if !ok {
		return ""
	}
	op, ok := tokOp[b.Op]
	if !ok {
		return ""
	}
	x, y := unconv(b.X), b.Y
	id, isId := x.(*ast.Ident)
	n, isN := intLit(y)
	if !isId || !isN {
		// literal on the left
		id, isId = unconv(b.Y).(*ast.Ident)
		n, isN = intLit(b.X)
		if !isId || !isN {
			return ""
		}
		op = flipOp[op]
	}
	if t.isVersion(id) {
		return ""
	}
	match := false
	switch kind {
	case "neg":
		match = (op == "lt" && n == 0) || (op == "le" && n == -1)
	case "exit":
		match = (op == "eq" && n == 0) || (op == "le" && n == 0) || (op == "lt" && n == 1) || (op == "eq" && n == -1) || (op == "lt" && n == 0)
	case "pos":
		match = (op == "gt" && n == 0) || (op == "ne" && n == 0) || (op == "ge" && n == 1)
	}
	if match {
		return id.Name
	}
	return ""
}

func (t *tr) stmt(s ast.Stmt) []*Node {
	switch x := s.(type) {
	case nil:
		return nil
	case *ast.EmptyStmt:
		return nil
	case *ast.ExprStmt:
		if c, ok := unparen(x.X).(*ast.CallExpr); ok && !t.wireFree(c) {
			return t.call(c, nil)
		}
	case *ast.AssignStmt:
		if len(x.Rhs) == 1 {
			if c, ok := unparen(x.Rhs[0]).(*ast.CallExpr); ok && !t.wireFree(c) {
				return t.call(c, x.Lhs)
			}
		}
		if t.wireFree(x) {
			t.noteAssign(x)
			return nil
		}
	case *ast.DeclStmt:
		if gd, ok := x.Decl.(*ast.GenDecl); ok && gd.Tok == token.VAR && t.wireFree(x) {
			for _, sp := range gd.Specs {
				vs := sp.(*ast.ValueSpec)
				for _, nm := range vs.Names {
					if vs.Type != nil {
						t.locals[nm.Name] = vs.Type
					}
				}
			}
			return nil
		}
	case *ast.BlockStmt:
		return t.block(x.List, ctxInner)
	case *ast.IfStmt:
		return t.ifStmt(x)
	case *ast.RangeStmt:
		if t.wireFree(x) && !t.containsExit(x) {
			t.bindRange(x)
			// for k := range M { keys = append(keys, k) }
			if k, ok := x.Key.(*ast.Ident); ok && x.Value == nil && len(x.Body.List) == 1 {
				if a, ok := x.Body.List[0].(*ast.AssignStmt); ok && len(a.Lhs) == 1 && len(a.Rhs) == 1 {
					if c, ok := a.Rhs[0].(*ast.CallExpr); ok && isNamed(c.Fun, "append") && len(c.Args) == 2 &&
						t.print(c.Args[0]) == t.print(a.Lhs[0]) && isNamed(c.Args[1], k.Name) {
						t.collAlias[t.print(a.Lhs[0])] = t.print(x.X)
					}
				}
			}
			return nil
		}
		return t.loop(s)
	case *ast.ForStmt:
		if t.wireFree(x) && !t.containsExit(x) {
			return nil
		}
		return t.loop(s)
	case *ast.ReturnStmt:
		return t.ret(x)
	}
	if t.wireFree(s) {
		if t.containsExit(s) {
			return []*Node{unsup("early exit inside %T", s)}
		}
		t.scanNonWire(s)
		return nil
	}
	return []*Node{unsup("statement form not recognised: %s", short(t.print(s)))}
}

// bookkeeping for statements that do not touch the wire
func (t *tr) noteAssign(a *ast.AssignStmt) {
	if len(a.Lhs) != 1 || len(a.Rhs) != 1 {
		return
	}
	lhs, rhs := a.Lhs[0], unparen(a.Rhs[0])
	if se, ok := lhs.(*ast.SelectorExpr); ok && se.Sel.Name == "Version" {
		own := t.ownVer
		isV := t.isVersion(rhs)
		if isNamed(se.X, t.recv) {
			// r.Version = version (decode): from here on the field is the current version
			if isV && !own {
				t.ownVer = false
				t.ownAssigned = true
			}
		} else if isV {
			t.verSet[t.print(se.X)] = true
		} else {
			delete(t.fixedVer, t.print(se.X))
		}
		return
	}
	id, isId := lhs.(*ast.Ident)
	if isId {
		// isFlexible := version >= 6
		if be, ok := rhs.(*ast.BinaryExpr); ok {
			if _, cmp := tokOp[be.Op]; cmp || be.Op == token.LAND || be.Op == token.LOR {
				if c := t.cond(rhs); c != nil && c.pure() {
					t.boolVars[id.Name] = c
					return
				}
			}
		}
		if t.isVersion(rhs) {
			t.verAlias[id.Name] = true
			return
		}
		// partitionCount = int(n) - 1 / = int(n): the count is taken from the value just read
		if t.side == "dec" && t.last != nil && t.last.Var != "" {
			adj := 0
			src := rhs
			if be, ok := rhs.(*ast.BinaryExpr); ok && be.Op == token.SUB {
				if n, ok := intLit(be.Y); ok && n == 1 {
					adj, src = -1, be.X
				}
			}
			if y, ok := unconv(src).(*ast.Ident); ok && y.Name == t.last.Var && y.Name != id.Name {
				t.last.Var, t.last.Over, t.last.Adjust = id.Name, id.Name, adj
				return
			}
		}
		// tmp := new(T) / &T{…} / &T{Version: 0, …}: the value's own Version field is known
		if c, ok := rhs.(*ast.CallExpr); ok && isNamed(c.Fun, "new") {
			t.fixedVer[id.Name] = 0
		}
		if u, ok := rhs.(*ast.UnaryExpr); ok && u.Op == token.AND {
			if cl, ok := u.X.(*ast.CompositeLit); ok {
				t.fixedVer[id.Name] = 0
				for _, el := range cl.Elts {
					if kv, ok := el.(*ast.KeyValueExpr); ok && isNamed(kv.Key, "Version") {
						if n, ok := intLit(kv.Value); ok {
							t.fixedVer[id.Name] = n
						} else if t.isVersion(kv.Value) {
							delete(t.fixedVer, id.Name)
							t.verSet[id.Name] = true
						} else {
							delete(t.fixedVer, id.Name)
						}
					}
				}
			}
		}
		// length := len(X)
		if c, ok := rhs.(*ast.CallExpr); ok && isNamed(c.Fun, "len") && len(c.Args) == 1 {
			t.countAlias[id.Name] = t.print(c.Args[0])
			return
		}
		if n, ok := intLit(rhs); ok && n == -1 {
			if _, isAlias := t.countAlias[id.Name]; isAlias {
				t.nullAlias[id.Name] = true
			}
			return
		}
		if ty := t.typeOf(rhs); ty != nil && a.Tok == token.DEFINE {
			t.locals[id.Name] = ty
		}
		// lengthDecoder := acquireLengthField() / crc32Decoder := acquireCrc32Field(crcIEEE)
		if c, ok := rhs.(*ast.CallExpr); ok {
			if w := t.pushKindOfCall(c); w != nil {
				t.pushVars[id.Name] = w
			}
		}
	}
	// X = make(T, n)
	if c, ok := rhs.(*ast.CallExpr); ok && isNamed(c.Fun, "make") && len(c.Args) >= 2 {
		if n, ok := unconv(c.Args[1]).(*ast.Ident); ok {
			t.makeOf[t.print(lhs)] = n.Name
		}
	}
}

func (t *tr) scanNonWire(n ast.Node) {
	ast.Inspect(n, func(x ast.Node) bool {
		if a, ok := x.(*ast.AssignStmt); ok {
			t.noteAssign(a)
		}
		return true
	})
}

func (t *tr) pushKindOfCall(c *ast.CallExpr) *Node {
	id, ok := c.Fun.(*ast.Ident)
	if !ok {
		return nil
	}
	switch id.Name {
	case "acquireLengthField":
		return &Node{Kind: "len32"}
	case "newCRC32Field", "acquireCrc32Field":
		if len(c.Args) == 1 {
			if isNamed(c.Args[0], "crcIEEE") {
				return &Node{Kind: "crc", Poly: "ieee"}
			}
			if isNamed(c.Args[0], "crcCastagnoli") {
				return &Node{Kind: "crc", Poly: "castagnoli"}
			}
		}
	}
	return nil
}

func (t *tr) pushKind(arg ast.Expr) *Node {
	arg = unparen(arg)
	fieldKind := func(name string) *Node {
		switch name {
		case "lengthField":
			return &Node{Kind: "len32"}
		case "varintLengthField":
			return &Node{Kind: "varlen"}
		}
		return nil
	}
	switch x := arg.(type) {
	case *ast.UnaryExpr:
		if x.Op == token.AND {
			if cl, ok := x.X.(*ast.CompositeLit); ok {
				if id, ok := cl.Type.(*ast.Ident); ok {
					return fieldKind(id.Name)
				}
			}
			if ty := t.typeOf(x.X); ty != nil {
				if id, ok := ty.(*ast.Ident); ok {
					return fieldKind(id.Name)
				}
			}
		}
	case *ast.CallExpr:
		return t.pushKindOfCall(x)
	case *ast.Ident:
		return t.pushVars[x.Name]
	}
	return nil
}

func (t *tr) call(c *ast.CallExpr, lhs []ast.Expr) []*Node {
	src := short(t.print(c))
	se, ok := c.Fun.(*ast.SelectorExpr)
	if ok && isNamed(se.X, t.io) {
		m := se.Sel.Name
		arg := ""
		if len(c.Args) == 1 {
			arg = t.print(c.Args[0])
		}
		v := ""
		if len(lhs) >= 1 && !isNamed(lhs[0], "_") && !isNamed(lhs[0], "err") {
			v = t.print(lhs[0])
		}
		isOwn := func(e ast.Expr) bool {
			se, ok := unconv(e).(*ast.SelectorExpr)
			return ok && se.Sel.Name == "Version" && isNamed(se.X, t.recv)
		}
		if (len(lhs) >= 1 && isOwn(lhs[0])) || (len(c.Args) == 1 && isOwn(c.Args[0])) {
			t.verOnWire = src
		}
		switch m {
		case "push":
			if len(c.Args) == 1 {
				if w := t.pushKind(c.Args[0]); w != nil {
					return []*Node{{Kind: "push", A: w, Comment: arg}}
				}
			}
			return []*Node{unsup("push of an unknown field kind: %s", src)}
		case "pop":
			return []*Node{{Kind: "pop"}}
		}
		if t.side == "enc" {
			switch m {
			case "putArrayLength", "putCompactArrayLength":
				k := "i32"
				if m == "putCompactArrayLength" {
					k = "compact"
				}
				return []*Node{t.encCount(k, c.Args[0], src)}
			case "putVarint":
				// putVarint(int64(len(X))): the count of a varint-counted array
				if lc, ok := unconv(c.Args[0]).(*ast.CallExpr); ok && isNamed(lc.Fun, "len") && len(lc.Args) == 1 {
					return []*Node{{Kind: "count", CS: &CS{Op: "cnt", K: "varint"}, Over: t.print(lc.Args[0]), Comment: src}}
				}
			}
			if p, ok := encPrims[m]; ok {
				if len(c.Args) == 1 {
					if n, isLit := intLit(c.Args[0]); isLit {
						return []*Node{{Kind: "lit", Prim: p, Lit: strconv.Itoa(n), Comment: src}}
					}
				}
				return []*Node{{Kind: "prim", Prim: p, Comment: arg}}
			}
		} else {
			switch m {
			case "getArrayLength":
				return []*Node{{Kind: "count", CS: &CS{Op: "cnt", K: "i32"}, Over: v, Var: v, Comment: v}}
			case "getCompactArrayLength":
				return []*Node{{Kind: "count", CS: &CS{Op: "cnt", K: "compact"}, Over: v, Var: v, Comment: v}}
			}
			if p, ok := decPrims[m]; ok {
				n := &Node{Kind: "prim", Prim: p, Var: v, Comment: v}
				t.last = n
				return []*Node{n}
			}
		}
		return []*Node{unsup("%s.%s is not modelled by the skeleton language", t.io, m)}
	}
	// nested encode / decode
	if ok && (se.Sel.Name == "encode" || se.Sel.Name == "decode") && len(c.Args) >= 1 && isNamed(c.Args[0], t.io) {
		want := "encode"
		if t.side == "dec" {
			want = "decode"
		}
		if se.Sel.Name != want {
			return []*Node{unsup("%s called from the %s side", se.Sel.Name, t.side)}
		}
		tn := t.typeName(se.X)
		if tn == "" {
			return []*Node{unsup("cannot resolve the type of %s in %s", t.print(se.X), src)}
		}
		fixed := -1
		if len(c.Args) == 2 && !t.isVersion(c.Args[1]) {
			n, ok := intLit(c.Args[1])
			if !ok || n < 0 {
				return []*Node{unsup("nested call with a version argument other than the current version or a literal: %s", src)}
			}
			fixed = n
		}
		if len(c.Args) > 2 {
			return []*Node{unsup("nested call with extra arguments: %s", src)}
		}
		own := -2 // the callee's own Version field is not known to be the current version
		if id, ok := unparen(se.X).(*ast.Ident); ok {
			if n, ok := t.fixedVer[id.Name]; ok {
				own = n
			}
		}
		if t.verSet[t.print(se.X)] {
			own = -1
		}
		return []*Node{{Kind: "call", CallT: tn, CallM: want, CallV: len(c.Args) == 2, FixedV: fixed, Adjust: own, Comment: t.print(se.X)}}
	}
	return []*Node{unsup("the encoder/decoder is passed to a helper: %s", src)}
}

func (t *tr) encCount(k string, arg ast.Expr, src string) *Node {
	a := unconv(arg)
	if lc, ok := a.(*ast.CallExpr); ok && isNamed(lc.Fun, "len") && len(lc.Args) == 1 {
		return &Node{Kind: "count", CS: &CS{Op: "cnt", K: k}, Over: t.print(lc.Args[0]), Comment: src}
	}
	if id, ok := a.(*ast.Ident); ok {
		if over, ok := t.countAlias[id.Name]; ok {
			cs := &CS{Op: "cnt", K: k}
			if t.nullAlias[id.Name] {
				cs = &CS{Op: "dsel", A: cs, B: &CS{Op: "nul", K: k}}
			}
			return &Node{Kind: "count", CS: cs, Over: over, Comment: src}
		}
	}
	return unsup("array length that is not len(collection): %s", src)
}

func (t *tr) ifStmt(ifs *ast.IfStmt) []*Node {
	var items []*Node
	if ifs.Init != nil {
		items = append(items, t.stmt(ifs.Init)...)
	}
	src := short(t.print(ifs.Cond))
	bodyFree := t.wireFree(ifs.Body) && (ifs.Else == nil || t.wireFree(ifs.Else))
	hasExit := t.containsExit(ifs.Body) || (ifs.Else != nil && t.containsExit(ifs.Else))
	if bodyFree {
		if hasExit {
			if isErrNotNil(ifs.Cond) || t.isErrCheck(ifs.Cond) {
				return items
			}
			return append(items, unsup("conditional early exit: if %s", src))
		}
		if !t.wireFree(ifs.Cond) && ifs.Init == nil && !t.condOnlyRemaining(ifs.Cond) {
			return append(items, unsup("condition reads the wire: %s", src))
		}
		if v := t.countGuard(ifs.Cond, "neg"); v != "" && containsReturn(ifs.Body) {
			t.rejectNeg[v] = true
		}
		t.scanNonWire(ifs.Body)
		if ifs.Else != nil {
			t.scanNonWire(ifs.Else)
		}
		return items
	}
	if hasExit {
		return append(items, unsup("early exit inside a branch that uses the wire: if %s", src))
	}
	// `if n > 0 { X = make(…, n); for … }`: the guard only avoids an allocation
	if v := t.countGuard(ifs.Cond, "pos"); v != "" && (ifs.Else == nil || t.wireFree(ifs.Else)) {
		body := t.block(ifs.Body.List, ctxInner)
		if len(body) == 1 && body[0].Kind == "loop" && body[0].Over == v {
			return append(items, body...)
		}
		return append(items, unsup("`%s` guards more than the loop over that count", src))
	}
	c := t.cond(ifs.Cond)
	if c == nil {
		return append(items, unsup("condition reads the wire or mixes the version with other data: %s", src))
	}
	if t.side == "dec" && !c.pure() {
		return append(items, unsup("value-dependent branch in decode: %s", src))
	}
	T := seq(t.block(ifs.Body.List, ctxInner))
	E := skipNode
	switch e := ifs.Else.(type) {
	case *ast.BlockStmt:
		E = seq(t.block(e.List, ctxInner))
	case *ast.IfStmt:
		E = seq(t.ifStmt(e))
	}
	return append(items, t.mkIf(c, T, E, src))
}

// the only wire access of the condition is pd.remaining()
func (t *tr) condOnlyRemaining(e ast.Expr) bool { return t.wireFree(e) }

func single(n *Node) *Node {
	if n.Kind == "seq" || n.Kind == "skip" {
		return nil
	}
	return n
}

// a put of the null count: putInt32(-1) / putUVarint(0)
func nulKind(n *Node) string {
	if n == nil || n.Kind != "lit" {
		return ""
	}
	if n.Prim == "i32" && n.Lit == "-1" {
		return "i32"
	}
	if n.Prim == "uvarint" && n.Lit == "0" {
		return "compact"
	}
	return ""
}

func wireKind(k string) string {
	switch k {
	case "i32raw":
		return "i32"
	case "uvarintRaw":
		return "compact"
	}
	return k
}

func csKind(c *CS) string {
	switch c.Op {
	case "cnt", "nul":
		return wireKind(c.K)
	}
	return csKind(c.A)
}

// a decode-side read into a local that a count may be taken from
func rawCountKind(n *Node) string {
	if n == nil || n.Kind != "prim" || n.Var == "" {
		return ""
	}
	switch {
	case n.Prim == "i32" && n.Adjust == 0:
		return "i32raw"
	case n.Prim == "uvarint" && n.Adjust == -1:
		return "uvarintRaw"
	case n.Prim == "varint" && n.Adjust == 0:
		return "varint"
	}
	return ""
}

func (t *tr) mkIf(c *Cond, T, E *Node, src string) *Node {
	switch {
	case c.Op == "not":
		return t.mkIf(c.A, E, T, src)
	case c.pure():
		return t.mkChoice(c, T, E, src)
	case c.Op == "data":
		return t.mkChoice(nil, T, E, src)
	case c.Op == "and":
		return t.mkIf(c.A, t.mkIf(c.B, T, E, src), E, src)
	case c.Op == "or":
		return t.mkIf(c.A, T, t.mkIf(c.B, T, E, src), src)
	}
	return unsup("condition: %s", src)
}

// c == nil: value-dependent
func (t *tr) mkChoice(c *Cond, T, E *Node, src string) *Node {
	if c != nil && c.Op == "tt" {
		return T
	}
	if c != nil && c.Op == "ff" {
		return E
	}
	mkCS := func(a, b *CS) *CS {
		if c != nil {
			return &CS{Op: "sel", C: c, A: a, B: b}
		}
		return &CS{Op: "dsel", A: a, B: b}
	}
	a, b := single(T), single(E)
	asCS := func(n *Node) (*CS, string, string) { // count statement → (cs, collection, var)
		if n == nil {
			return nil, "", ""
		}
		if n.Kind == "count" {
			return n.CS, n.Over, n.Var
		}
		if k := nulKind(n); k != "" && t.side == "enc" {
			return &CS{Op: "nul", K: k}, "", ""
		}
		if k := rawCountKind(n); k != "" && t.side == "dec" {
			return &CS{Op: "cnt", K: k}, n.Var, n.Var
		}
		return nil, "", ""
	}
	// both branches are count statements
	ca, oa, va := asCS(a)
	cb, ob, vb := asCS(b)
	if ca != nil && cb != nil && (a.Kind == "count" || b.Kind == "count") && (oa == ob || oa == "" || ob == "") && va == vb {
		over := oa
		if over == "" {
			over = ob
		}
		return &Node{Kind: "count", CS: mkCS(ca, cb), Over: over, Var: va, Comment: "if " + src}
	}
	// one branch is the whole array, the other one writes the null count
	if t.side == "enc" && a != nil && b != nil {
		if a.Kind == "array" && nulKind(b) != "" && nulKind(b) == csKind(a.CS) {
			return &Node{Kind: "array", CS: mkCS(a.CS, &CS{Op: "nul", K: nulKind(b)}), A: a.A, Comment: a.Comment + " (null form: " + b.Comment + ")"}
		}
		if b.Kind == "array" && nulKind(a) != "" && nulKind(a) == csKind(b.CS) {
			return &Node{Kind: "array", CS: mkCS(&CS{Op: "nul", K: nulKind(a)}, b.CS), A: b.A, Comment: b.Comment + " (null form: " + a.Comment + ")"}
		}
	}
	// putStringArray(X) against the null count: putStringArray writes an int32 count and putString per element
	if t.side == "enc" && a != nil && b != nil {
		str := &Node{Kind: "prim", Prim: "str", Comment: "element of putStringArray"}
		if a.Kind == "prim" && a.Prim == "strarr" && nulKind(b) == "i32" {
			return &Node{Kind: "array", CS: mkCS(&CS{Op: "cnt", K: "i32"}, &CS{Op: "nul", K: "i32"}), A: str, Comment: "putStringArray(" + a.Comment + ") (null form: " + b.Comment + ")"}
		}
		if b.Kind == "prim" && b.Prim == "strarr" && nulKind(a) == "i32" {
			return &Node{Kind: "array", CS: mkCS(&CS{Op: "nul", K: "i32"}, &CS{Op: "cnt", K: "i32"}), A: str, Comment: "putStringArray(" + b.Comment + ") (null form: " + a.Comment + ")"}
		}
	}
	if c != nil {
		return &Node{Kind: "ifv", Cond: c, A: T, B: E, Comment: src}
	}
	return &Node{Kind: "alt", A: T, B: E, Comment: src}
}

func (t *tr) loop(s ast.Stmt) []*Node {
	switch x := s.(type) {
	case *ast.RangeStmt:
		over := t.print(x.X)
		t.bindRange(x)
		if m, ok := t.collAlias[over]; ok && t.side == "enc" {
			over = m
		}
		if t.side == "dec" {
			n, ok := t.makeOf[over]
			if !ok {
				return []*Node{unsup("decode loop over %s, which is not made from a count", over)}
			}
			over = n
		}
		body := seq(t.block(x.Body.List, ctxLoop))
		return []*Node{{Kind: "loop", Over: over, A: body, Comment: "for range " + short(t.print(x.X))}}
	case *ast.ForStmt:
		// for i := 0; i < BOUND; i++
		src := ""
		if x.Cond != nil {
			src = short(t.print(x.Cond))
		}
		be, ok := x.Cond.(*ast.BinaryExpr)
		if !ok || be.Op != token.LSS || x.Init == nil || x.Post == nil {
			return []*Node{unsup("loop form not recognised: for %s", src)}
		}
		as, ok := x.Init.(*ast.AssignStmt)
		if !ok || len(as.Lhs) != 1 || len(as.Rhs) != 1 {
			return []*Node{unsup("loop form not recognised: for %s", src)}
		}
		iv, ok := as.Lhs[0].(*ast.Ident)
		zero, isLit := intLit(as.Rhs[0])
		inc, isInc := x.Post.(*ast.IncDecStmt)
		if !ok || !isLit || zero != 0 || !isInc || inc.Tok != token.INC || !isNamed(inc.X, iv.Name) || !isNamed(be.X, iv.Name) {
			return []*Node{unsup("loop form not recognised: for %s", src)}
		}
		t.locals[iv.Name] = ast.NewIdent("int")
		bound := unconv(be.Y)
		over := ""
		if t.side == "enc" {
			if lc, ok := bound.(*ast.CallExpr); ok && isNamed(lc.Fun, "len") && len(lc.Args) == 1 {
				over = t.print(lc.Args[0])
			}
		} else if id, ok := bound.(*ast.Ident); ok {
			over = id.Name
		}
		if over == "" {
			return []*Node{unsup("loop bound not recognised: for %s", src)}
		}
		body := seq(t.block(x.Body.List, ctxLoop))
		return []*Node{{Kind: "loop", Over: over, A: body, Comment: "for " + src}}
	}
	return nil
}

func isWire(n *Node) bool { return n.Kind != "skip" }

// merge: pair push/pop, attach loops to the count that precedes them
func (t *tr) merge(in []*Node, top bool) []*Node {
	items := itemsOf(seq(in))
	// count + loop → array
	var out []*Node
	for i := 0; i < len(items); i++ {
		n := items[i]
		if i+1 < len(items) && items[i+1].Kind == "loop" {
			l := items[i+1]
			var cs *CS
			if n.Kind == "count" && n.Over == l.Over && n.Over != "" {
				cs = n.CS
			} else if k := rawCountKind(n); k != "" && t.side == "dec" && n.Var == l.Over {
				cs = &CS{Op: "cnt", K: k}
			}
			if cs != nil {
				a := &Node{Kind: "array", CS: cs, A: l.A, Comment: n.Comment + "; " + l.Comment}
				if t.side == "dec" {
					a.Accept = !t.rejectNeg[l.Over]
					a.Var = l.Over
				}
				out = append(out, a)
				i++
				continue
			}
		}
		out = append(out, n)
	}
	// push … pop → wrapper
	for {
		open := -1
		done := true
		for i, n := range out {
			if n.Kind == "push" {
				open = i
			}
			if n.Kind == "pop" {
				if open < 0 {
					break
				}
				w := &Node{Kind: out[open].A.Kind, Poly: out[open].A.Poly, A: seq(append([]*Node{}, out[open+1:i]...)), Comment: "push " + out[open].Comment}
				rest := append([]*Node{}, out[i+1:]...)
				out = append(append(out[:open:open], w), rest...)
				done = false
				break
			}
		}
		if done {
			break
		}
	}
	if top {
		for i, n := range out {
			if n.Kind == "array" && n.Var != "" && t.zeroExit[n.Var] && i != len(out)-1 {
				out[i] = unsup("decode returns right after an empty array (count %s) although more fields follow", n.Var)
			}
		}
	}
	return out
}

func (g *global) translate(m *method) *Node {
	fd := m.decl
	t := &tr{g: g, boolVars: map[string]*Cond{}, verAlias: map[string]bool{}, locals: map[string]ast.Expr{},
		countAlias: map[string]string{}, nullAlias: map[string]bool{}, rejectNeg: map[string]bool{}, zeroExit: map[string]bool{},
		pushVars: map[string]*Node{}, makeOf: map[string]string{}, collAlias: map[string]string{}, fixedVer: map[string]int{}, verSet: map[string]bool{}}
	t.side = "enc"
	if m.name == "decode" {
		t.side = "dec"
	}
	t.recv, t.recvTyp = recvType(fd)
	if fd.Recv != nil && len(fd.Recv.List) == 1 {
		t.locals[t.recv] = fd.Recv.List[0].Type
	}
	ps := fd.Type.Params.List
	t.io = ps[0].Names[0].Name
	nparams := 0
	for _, p := range ps {
		nparams += len(p.Names)
	}
	if nparams == 2 && len(ps) == 2 && isNamed(ps[1].Type, "int16") {
		t.verParam = ps[1].Names[0].Name
	} else if nparams != 1 {
		return unsup("signature not recognised")
	}
	n := seq(t.block(fd.Body.List, ctxTop))
	if t.verOnWire != "" && hasCond(n) {
		n = unsup("the Version field of %s is itself wire data (%s) and the layout depends on it", t.recvTyp, t.verOnWire)
	}
	g.ownVersion[m.typ+"."+m.name] = t.ownVer && !t.ownAssigned
	return n
}

// ------------------------------------------------------------------------------------------------
// inlining of nested calls, final checks

func (g *global) inline(key string) *Node {
	if n, ok := g.inl[key]; ok {
		return n
	}
	if g.busy[key] {
		return unsup("recursive type %s", key)
	}
	g.busy[key] = true
	n := g.expand(g.skel[key])
	g.busy[key] = false
	g.inl[key] = n
	return n
}

func (g *global) expand(n *Node) *Node {
	if n == nil {
		return nil
	}
	switch n.Kind {
	case "call":
		key := n.CallT + "." + n.CallM
		m, ok := g.meths[key]
		if !ok {
			return unsup("no method %s", key)
		}
		nparams := 0
		for _, p := range m.decl.Type.Params.List {
			nparams += len(p.Names)
		}
		if (nparams == 2) != n.CallV {
			return unsup("call of %s with the wrong number of arguments", key)
		}
		body := g.inline(key)
		if body.Kind == "skip" {
			return skipNode
		}
		label := n.Comment + "." + n.CallM + " [" + n.CallT + "]"
		fixed := n.FixedV
		if g.ownVersion[key] {
			// the callee reads its own Version field
			switch {
			case n.Adjust == -2:
				return unsup("%s reads its own Version field, which the caller does not set", label)
			case n.Adjust >= 0 && n.CallV && fixed != n.Adjust:
				return unsup("%s: version argument and the value's own Version field differ", label)
			case n.Adjust >= 0:
				fixed = n.Adjust
			}
		}
		if fixed >= 0 {
			return &Node{Kind: "atver", FixedV: fixed, A: body, Comment: label}
		}
		c := *body
		c.Comment = strings.TrimSpace(label + " " + c.Comment)
		return &c
	case "count":
		return unsup("array count without its loop (%s)", n.Comment)
	case "loop":
		return unsup("loop without a preceding count (%s)", n.Comment)
	case "push":
		return unsup("push without pop in the same block")
	case "pop":
		return unsup("pop without push in the same block")
	}
	c := *n
	c.A, c.B = g.expand(n.A), g.expand(n.B)
	if n.Items != nil {
		c.Items = nil
		for _, i := range n.Items {
			c.Items = append(c.Items, g.expand(i))
		}
		return seqKeep(&c)
	}
	return &c
}

// re-flatten after inlining, keeping the comments of inlined sequences
func seqKeep(n *Node) *Node {
	var out []*Node
	for _, i := range n.Items {
		if i.Kind == "skip" {
			continue
		}
		out = append(out, i)
	}
	if len(out) == 0 {
		return skipNode
	}
	c := *n
	c.Items = out
	return &c
}

func hasCond(n *Node) bool {
	if n == nil {
		return false
	}
	if n.Kind == "ifv" || (n.CS != nil && strings.Contains(n.CS.lean(), ".sel")) {
		return true
	}
	for _, i := range n.Items {
		if hasCond(i) {
			return true
		}
	}
	return hasCond(n.A) || hasCond(n.B)
}

func reasons(n *Node, acc *[]string) {
	if n == nil {
		return
	}
	if n.Kind == "unsupported" {
		*acc = append(*acc, n.Reason)
	}
	reasons(n.A, acc)
	reasons(n.B, acc)
	for _, i := range n.Items {
		reasons(i, acc)
	}
}

func size(n *Node) int {
	if n == nil {
		return 0
	}
	s := 1 + size(n.A) + size(n.B)
	for _, i := range n.Items {
		s += size(i)
	}
	return s
}

// ------------------------------------------------------------------------------------------------
// Lean output

func leanStr(s string) string {
	s = strings.ReplaceAll(s, "\\", "\\\\")
	s = strings.ReplaceAll(s, "\"", "\\\"")
	return "\"" + s + "\""
}

func cmt(s string) string {
	s = strings.Join(strings.Fields(s), " ")
	if s == "" {
		return ""
	}
	return "  -- " + short(s)
}

func (n *Node) lean(b *strings.Builder, ind string, trail string) {
	w := func(s string) { b.WriteString(s) }
	switch n.Kind {
	case "skip":
		w(ind + ".skip" + trail + cmt(n.Comment) + "\n")
	case "prim":
		w(ind + "(.prim ." + n.Prim + ")" + trail + cmt(n.Comment) + "\n")
	case "lit":
		w(ind + "(.lit ." + n.Prim + ")" + trail + cmt(n.Comment) + "\n")
	case "unsupported":
		w(ind + "(.unsupported " + leanStr(n.Reason) + ")" + trail + "\n")
	case "seq":
		w(ind + "(Skel.seqL [" + cmt(n.Comment) + "\n")
		for i, it := range n.Items {
			tr := ","
			if i == len(n.Items)-1 {
				tr = ""
			}
			it.lean(b, ind+"  ", tr)
		}
		w(ind + "])" + trail + "\n")
	case "ifv":
		w(ind + "(.ifv " + n.Cond.lean() + cmt("if "+n.Comment) + "\n")
		n.A.lean(b, ind+"  ", "")
		n.B.lean(b, ind+"  ", "")
		w(ind + ")" + trail + "\n")
	case "alt":
		w(ind + "(.alt" + cmt("value-dependent: if "+n.Comment) + "\n")
		n.A.lean(b, ind+"  ", "")
		n.B.lean(b, ind+"  ", "")
		w(ind + ")" + trail + "\n")
	case "array":
		acc := "false"
		if n.Accept {
			acc = "true"
		}
		w(ind + "(.array " + n.CS.lean() + " " + acc + cmt(n.Comment) + "\n")
		n.A.lean(b, ind+"  ", "")
		w(ind + ")" + trail + "\n")
	case "atver":
		w(ind + fmt.Sprintf("(.atVer %d", n.FixedV) + cmt(n.Comment) + "\n")
		n.A.lean(b, ind+"  ", "")
		w(ind + ")" + trail + "\n")
	case "len32", "varlen":
		w(ind + "(." + n.Kind + cmt(n.Comment) + "\n")
		n.A.lean(b, ind+"  ", "")
		w(ind + ")" + trail + "\n")
	case "crc":
		w(ind + "(.crc ." + n.Poly + cmt(n.Comment) + "\n")
		n.A.lean(b, ind+"  ", "")
		w(ind + ")" + trail + "\n")
	default:
		w(ind + "(.unsupported " + leanStr("internal: "+n.Kind) + ")" + trail + "\n")
	}
}

func writeIfChanged(path, content string) error {
	old, err := ioutil.ReadFile(path)
	if err == nil && string(old) == content {
		return nil
	}
	if err := os.MkdirAll(filepath.Dir(path), 0o755); err != nil {
		return err
	}
	tmp := path + fmt.Sprintf(".tmp%d", os.Getpid())
	if err := ioutil.WriteFile(tmp, []byte(content), 0o644); err != nil {
		return err
	}
	return os.Rename(tmp, path)
}

// known: deviations of the pinned tree that are stated (and proved) instead of the plain obligation, so that a change of
// the source in either direction breaks the build of Bridge/C09Skel.lean and the list has to be revisited.
//
//	Type mirror-upto N reason…    the two sides agree on the versions 0..N the type implements and part beyond
//	Type schema-upto N reason…    the same for the tie to the hand-written schema
//	Type mirror-differs reason…   the pair does not mirror at all (with the reason why that is no defect / a defect)
type known struct {
	typ, what, why string
	n              int
}

func readKnown(path string) (map[string]known, error) {
	out := map[string]known{}
	if path == "" {
		return out, nil
	}
	data, err := ioutil.ReadFile(path)
	if err != nil {
		if os.IsNotExist(err) {
			return out, nil
		}
		return nil, err
	}
	for _, l := range strings.Split(string(data), "\n") {
		l = strings.TrimSpace(l)
		if l == "" || strings.HasPrefix(l, "#") {
			continue
		}
		f := strings.Fields(l)
		if len(f) < 2 {
			return nil, fmt.Errorf("%s: bad line %q", path, l)
		}
		k := known{typ: f[0], what: f[1]}
		rest := f[2:]
		switch k.what {
		case "mirror-upto", "schema-upto":
			if len(rest) == 0 {
				return nil, fmt.Errorf("%s: missing version in %q", path, l)
			}
			n, err := strconv.Atoi(rest[0])
			if err != nil {
				return nil, fmt.Errorf("%s: bad version in %q", path, l)
			}
			k.n, rest = n, rest[1:]
		case "mirror-differs":
		default:
			return nil, fmt.Errorf("%s: unknown kind in %q", path, l)
		}
		k.why = strings.ReplaceAll(strings.Join(rest, " "), "-/", "- /")
		kind := "mirror"
		if k.what == "schema-upto" {
			kind = "schema"
		}
		out[k.typ+" "+kind] = k
	}
	return out, nil
}

func main() {
	repo := flag.String("repo", "/repo", "sarama working tree")
	out := flag.String("out", "", "Lean file for the skeletons (Gen/C09Skel.lean); empty: stdout")
	bridge := flag.String("bridge", "", "Lean file for the obligations (Bridge/C09Skel.lean)")
	schemas := flag.String("schemas", "", "Model/CodecSchemas.lean (names of the hand-written schemas)")
	knownF := flag.String("known", "", "list of obligations known to fail on the pinned tree")
	report := flag.Bool("report", false, "print the per-type summary on stderr")
	flag.Parse()

	g, err := load(*repo)
	if err != nil {
		fmt.Fprintln(os.Stderr, "skel:", err)
		os.Exit(2)
	}
	kn, err := readKnown(*knownF)
	if err != nil {
		fmt.Fprintln(os.Stderr, "skel:", err)
		os.Exit(2)
	}
	knownSet := kn
	usedKnown := map[string]bool{}
	schemaNames := map[string]bool{}
	if *schemas != "" {
		data, err := ioutil.ReadFile(*schemas)
		if err != nil {
			fmt.Fprintln(os.Stderr, "skel:", err)
			os.Exit(2)
		}
		for _, m := range regexp.MustCompile(`(?m)^\s*\|\s*"(\w+)"\s*=>`).FindAllStringSubmatch(string(data), -1) {
			schemaNames[m[1]] = true
		}
	}

	// types with both methods
	var types []string
	for k, m := range g.meths {
		if m.name == "encode" {
			if _, ok := g.meths[m.typ+".decode"]; ok {
				types = append(types, m.typ)
			}
		}
		_ = k
	}
	sort.Strings(types)
	var keys []string
	for k := range g.meths {
		keys = append(keys, k)
	}
	sort.Strings(keys)
	for _, k := range keys {
		g.skel[k] = g.translate(g.meths[k])
	}

	var gen, br strings.Builder
	gen.WriteString("import SaramaVerif.Model.CodecSkel\n")
	gen.WriteString("/-\n  GENERATED by tools/skel from the Go AST of the encode/decode methods of package sarama - do not edit.\n")
	gen.WriteString("  One `encSkel` / `decSkel` pair per type that has both methods; nested encode/decode calls are inlined.\n")
	gen.WriteString("  Go identifiers survive only in comments.\n-/\n")
	gen.WriteString("namespace Gen.C09Skel\nopen Model.Codec\n\n")

	br.WriteString("import SaramaVerif.Gen.C09Skel\nimport SaramaVerif.Model.CodecSchemas\n")
	br.WriteString("/-\n  GENERATED by tools/skel - do not edit.  Bridge obligations of the C09 skeletons, one pair per type:\n")
	br.WriteString("    T_mirror : the decode skeleton reads, at every version, exactly the fields the encode skeleton writes\n")
	br.WriteString("    T_schema : at every version the encode skeleton is the hand-written schema of Model/CodecSchemas.lean\n")
	br.WriteString("  Closed by kernel evaluation (`decide +kernel`), no native code.\n-/\n")
	br.WriteString("namespace Bridge.C09Skel\nopen Model.Codec Gen.C09Skel\n\n")

	nBody, nBodyOK, nBlock, nBlockOK, nSchema := 0, 0, 0, 0, 0
	nMirror, nMirrorUpto, nMirrorDiffers, nSchemaUpto := 0, 0, 0, 0
	var unsupportedLines []string
	var supported []string
	for _, ty := range types {
		e, d := g.inline(ty+".encode"), g.inline(ty+".decode")
		var re, rd []string
		reasons(e, &re)
		reasons(d, &rd)
		isBody := g.hasKey[ty] || schemaNames[ty]
		kind := "block"
		if isBody {
			kind = "body"
			nBody++
		} else {
			nBlock++
		}
		if leanName(ty) != ty {
			re = append(re, "the type name is not a plain Lean identifier")
		}
		ok := len(re) == 0 && len(rd) == 0
		ln := leanName(ty)
		fmt.Fprintf(&gen, "/-- %s `%s` (%s): encode, %d nodes -/\ndef %s.encSkel : Skel :=\n", kind, ty, g.meths[ty+".encode"].file, size(e), ln)
		e.lean(&gen, "  ", "")
		fmt.Fprintf(&gen, "\n/-- %s `%s` (%s): decode, %d nodes -/\ndef %s.decSkel : Skel :=\n", kind, ty, g.meths[ty+".decode"].file, size(d), ln)
		d.lean(&gen, "  ", "")
		gen.WriteString("\n")
		if !ok {
			var rs []string
			for _, r := range re {
				rs = append(rs, "encode: "+r)
			}
			for _, r := range rd {
				rs = append(rs, "decode: "+r)
			}
			unsupportedLines = append(unsupportedLines, fmt.Sprintf("%s %s: %s", kind, ty, strings.Join(rs, "; ")))
			continue
		}
		if isBody {
			nBodyOK++
		} else {
			nBlockOK++
		}
		supported = append(supported, ty)
		if k, bad := knownSet[ty+" mirror"]; bad {
			usedKnown[ty+" mirror"] = true
			if k.what == "mirror-upto" {
				fmt.Fprintf(&br, "theorem %s_mirror_upto : mirrorUpTo %d %s.encSkel %s.decSkel = true := by decide +kernel\n", ty, k.n, ty, ty)
				fmt.Fprintf(&br, "/-- beyond version %d the two sides part: %s -/\ntheorem %s_mirror_beyond : mirror %s.encSkel %s.decSkel = false := by decide +kernel\n", k.n, k.why, ty, ty, ty)
				nMirrorUpto++
			} else {
				fmt.Fprintf(&br, "/-- %s -/\ntheorem %s_mirror_differs : mirror %s.encSkel %s.decSkel = false := by decide +kernel\n", k.why, ty, ty, ty)
				nMirrorDiffers++
			}
		} else {
			fmt.Fprintf(&br, "theorem %s_mirror : mirror %s.encSkel %s.decSkel = true := by decide +kernel\n", ty, ty, ty)
			nMirror++
		}
		if schemaNames[ty] {
			nSchema++
			if k, bad := knownSet[ty+" schema"]; bad {
				usedKnown[ty+" schema"] = true
				fmt.Fprintf(&br, "theorem %s_schema_upto : schemaTieUpTo %d %s.encSkel (bodySchema %s) = true := by decide +kernel\n", ty, k.n, ty, leanStr(ty))
				fmt.Fprintf(&br, "/-- beyond version %d the skeleton and the schema part: %s -/\ntheorem %s_schema_beyond : schemaTie %s.encSkel (bodySchema %s) = false := by decide +kernel\n", k.n, k.why, ty, ty, leanStr(ty))
				nSchemaUpto++
			} else {
				fmt.Fprintf(&br, "theorem %s_schema : schemaTie %s.encSkel (bodySchema %s) = true := by decide +kernel\n", ty, ty, leanStr(ty))
			}
		}
		br.WriteString("\n")
	}
	sort.Strings(unsupportedLines)
	gen.WriteString("/-- types whose skeleton pair is in the recognised fragment -/\ndef supportedTypes : List String := [")
	for i, s := range supported {
		if i > 0 {
			gen.WriteString(", ")
		}
		if i%6 == 0 {
			gen.WriteString("\n  ")
		}
		gen.WriteString(leanStr(s))
	}
	gen.WriteString("]\n\n/- unsupported (hand-modelled or correspondence only):\n")
	for _, l := range unsupportedLines {
		gen.WriteString("  " + strings.ReplaceAll(l, "-/", "- /") + "\n")
	}
	gen.WriteString("-/\n\nend Gen.C09Skel\n")
	br.WriteString("end Bridge.C09Skel\n")

	summary := fmt.Sprintf("skel: %d types with an encode/decode pair: %d bodies (%d supported), %d nested blocks (%d supported); "+
		"obligations: %d mirror + %d mirror up to the implemented versions + %d stated differences; %d schema ties (%d up to the implemented versions)",
		len(types), nBody, nBodyOK, nBlock, nBlockOK, nMirror, nMirrorUpto, nMirrorDiffers, nSchema, nSchemaUpto)
	var stale []string
	for k := range knownSet {
		if !usedKnown[k] {
			stale = append(stale, k)
		}
	}
	sort.Strings(stale)
	for _, k := range stale {
		fmt.Fprintf(os.Stderr, "skel: warning: known-list entry %q matches no supported type\n", k)
	}
	if *out == "" {
		fmt.Print(gen.String())
	} else if err := writeIfChanged(*out, gen.String()); err != nil {
		fmt.Fprintln(os.Stderr, "skel:", err)
		os.Exit(2)
	}
	if *bridge != "" {
		if err := writeIfChanged(*bridge, br.String()); err != nil {
			fmt.Fprintln(os.Stderr, "skel:", err)
			os.Exit(2)
		}
	}
	fmt.Fprintln(os.Stderr, summary)
	if *report {
		for _, l := range unsupportedLines {
			fmt.Fprintln(os.Stderr, "  unsupported", l)
		}
	}
}
