#!/bin/sh
# tools/skel/regen.sh <repo>: (re)build the skeleton extractor when its sources are newer than the binary and
# regenerate lean/SaramaVerif/Gen/C09Skel.lean + lean/SaramaVerif/Bridge/C09Skel.lean from <repo>
# (files are rewritten only when their content changes).  Run from anywhere; used as CFG["pregen"] of C09.
set -e
REPO="${1:-/repo}"
VERIF="$(cd "$(dirname "$0")/../.." && pwd)"
BIN="$VERIF/.build/skel"
export GOFLAGS=-mod=mod GOPROXY=off GOSUMDB=off GOTOOLCHAIN=local
mkdir -p "$VERIF/.build"
need=0
[ -x "$BIN" ] || need=1
for f in "$VERIF"/tools/skel/*.go "$VERIF"/tools/skel/go.mod; do
  [ "$f" -nt "$BIN" ] && need=1
done
if [ "$need" = 1 ]; then
  (cd "$VERIF/tools/skel" && go build -o "$BIN.tmp$$" . && mv "$BIN.tmp$$" "$BIN")
fi
exec "$BIN" -repo "$REPO" \
  -schemas "$VERIF/lean/SaramaVerif/Model/CodecSchemas.lean" \
  -known "$VERIF/tools/skel/known.txt" \
  -out "$VERIF/lean/SaramaVerif/Gen/C09Skel.lean" \
  -bridge "$VERIF/lean/SaramaVerif/Bridge/C09Skel.lean"
