package main

import (
	"io/ioutil"
	"os"
	"path/filepath"
	"strings"
	"testing"
)

const src = `package sarama

type Inner struct{ A int32 }

func (i *Inner) encode(pe packetEncoder, version int16) error {
	pe.putInt32(i.A)
	if version >= 3 {
		pe.putInt64(0)
	}
	return nil
}

func (i *Inner) decode(pd packetDecoder, version int16) (err error) {
	if i.A, err = pd.getInt32(); err != nil {
		return err
	}
	if version > 2 {
		if _, err = pd.getInt64(); err != nil {
			return err
		}
	}
	return nil
}

type Body struct {
	Version int16
	Name    string
	Items   []*Inner
	Tags    []string
}

func (r *Body) encode(pe packetEncoder) error {
	if r.Version < 0 || r.Version > 9 {
		return PacketEncodingError{"bad version"}
	}
	isFlexible := r.Version >= 6
	if isFlexible {
		pe.putCompactString(r.Name)
	} else if err := pe.putString(r.Name); err != nil {
		return err
	}
	if r.Items == nil && r.Version >= 2 {
		pe.putInt32(-1)
	} else if err := pe.putArrayLength(len(r.Items)); err != nil {
		return err
	}
	for _, it := range r.Items {
		if err := it.encode(pe, r.Version); err != nil {
			return err
		}
	}
	if len(r.Tags) == 0 {
		pe.putInt32(-1)
		return nil
	}
	return pe.putStringArray(r.Tags)
}

func (r *Body) decode(pd packetDecoder, version int16) (err error) {
	r.Version = version
	if version >= 6 {
		r.Name, err = pd.getCompactString()
	} else {
		r.Name, err = pd.getString()
	}
	if err != nil {
		return err
	}
	n, err := pd.getArrayLength()
	if err != nil {
		return err
	}
	if n > 0 {
		r.Items = make([]*Inner, n)
		for i := 0; i < n; i++ {
			r.Items[i] = new(Inner)
			if err := r.Items[i].decode(pd, version); err != nil {
				return err
			}
		}
	}
	m, err := pd.getArrayLength()
	if err != nil || m <= 0 {
		return err
	}
	r.Tags = make([]string, m)
	for i := range r.Tags {
		if r.Tags[i], err = pd.getString(); err != nil {
			return err
		}
	}
	return nil
}

type Bad struct{ N int32 }

func (b *Bad) encode(pe packetEncoder) error {
	pe.putInt32(b.N)
	return nil
}

func (b *Bad) decode(pd packetDecoder, version int16) (err error) {
	if b.N, err = pd.getInt32(); err != nil {
		return err
	}
	if pd.remaining() > 0 {
		_, err = pd.getInt8()
	}
	return err
}

type Early struct{ Xs []int32 }

func (e *Early) encode(pe packetEncoder) error {
	if err := pe.putArrayLength(len(e.Xs)); err != nil {
		return err
	}
	for _, x := range e.Xs {
		pe.putInt32(x)
	}
	pe.putBool(true)
	return nil
}

func (e *Early) decode(pd packetDecoder, version int16) (err error) {
	n, err := pd.getArrayLength()
	if err != nil {
		return err
	}
	if n == 0 {
		return nil
	}
	e.Xs = make([]int32, n)
	for i := 0; i < n; i++ {
		if e.Xs[i], err = pd.getInt32(); err != nil {
			return err
		}
	}
	_, err = pd.getBool()
	return err
}
`

func leanOf(t *testing.T, g *global, key string) string {
	t.Helper()
	var b strings.Builder
	g.inline(key).lean(&b, "", "")
	// drop the comments
	var out []string
	for _, l := range strings.Split(b.String(), "\n") {
		if i := strings.Index(l, "  --"); i >= 0 {
			l = l[:i]
		}
		out = append(out, strings.TrimSpace(l))
	}
	return strings.Join(strings.Fields(strings.Join(out, " ")), " ")
}

func TestSkeletons(t *testing.T) {
	dir, err := ioutil.TempDir("", "skel")
	if err != nil {
		t.Fatal(err)
	}
	defer os.RemoveAll(dir)
	if err := ioutil.WriteFile(filepath.Join(dir, "x.go"), []byte(src), 0o644); err != nil {
		t.Fatal(err)
	}
	g, err := load(dir)
	if err != nil {
		t.Fatal(err)
	}
	for k, m := range g.meths {
		g.skel[k] = g.translate(m)
	}
	want := map[string]string{
		"Inner.encode": "(Skel.seqL [ (.prim .i32), (.ifv (.ge 3) (.lit .i64) .skip ) ])",
		"Inner.decode": "(Skel.seqL [ (.prim .i32), (.ifv (.gt 2) (.prim .i64) .skip ) ])",
		"Body.encode": "(Skel.seqL [ (.ifv (.ge 6) (.prim .cstr) (.prim .str) ), " +
			"(.array (.dsel (.sel (.ge 2) (.nul .i32) (.cnt .i32)) (.cnt .i32)) false " +
			"(Skel.seqL [ (.prim .i32), (.ifv (.ge 3) (.lit .i64) .skip ) ]) ), " +
			"(.array (.dsel (.nul .i32) (.cnt .i32)) false (.prim .str) ) ])",
		"Body.decode": "(Skel.seqL [ (.ifv (.ge 6) (.prim .cstr) (.prim .str) ), " +
			"(.array (.cnt .i32) true (Skel.seqL [ (.prim .i32), (.ifv (.gt 2) (.prim .i64) .skip ) ]) ), " +
			"(.array (.cnt .i32) true (.prim .str) ) ])",
		"Early.encode": "(Skel.seqL [ (.array (.cnt .i32) false (.prim .i32) ), (.prim .bool) ])",
	}
	for k, w := range want {
		if got := leanOf(t, g, k); got != w {
			t.Errorf("%s:\n got  %s\n want %s", k, got, w)
		}
	}
	for _, k := range []string{"Bad.decode", "Early.decode"} {
		var rs []string
		reasons(g.inline(k), &rs)
		if len(rs) == 0 {
			t.Errorf("%s: expected an unsupported node, got %s", k, leanOf(t, g, k))
		}
	}
}
