#!/bin/bash
# tools/seedtest.sh <seedout-dir> <seed-id> <Cxx> [<Cxx>...]
# Confirms an independently written breaking change (patch.diff + demo_test.go + meta.json in <seedout-dir>) on a
# scratch copy of /repo, runs the given checks against that copy and records everything under /verif/seeded/<seed-id>/.
set -u
export GOFLAGS=-mod=mod GOPROXY=off GOSUMDB=off GOTOOLCHAIN=local
SRC=$1; ID=$2; shift 2
OUT=/verif/seeded/$ID
W=/tmp/seedchk_$ID
rm -rf $W; mkdir -p $OUT
git -C /repo worktree prune
cp -r /repo $W && rm -rf $W/.git && (cd $W && git init -q && git add -A >/dev/null 2>&1 && git -c user.email=x -c user.name=x commit -qm base >/dev/null)
cp $SRC/patch.diff $OUT/patch.diff
cp $SRC/meta.json $OUT/meta.json 2>/dev/null
DEMO=$(ls $SRC/demo_test.go $SRC/demo/main.go 2>/dev/null | head -1)
cp $DEMO $OUT/ 2>/dev/null
RUNPAT="($(grep -o 'func Test[A-Za-z0-9_]*' $DEMO | sed 's/func //' | sort -u | paste -sd'|'))\$"
PKGDIR=.
# demos may belong to package mocks
if grep -q '^package mocks' $DEMO; then PKGDIR=mocks; fi
res() { echo "$1" | tee -a $OUT/confirm.log; }
: > $OUT/confirm.log
# 1. demo without the change
cp $DEMO $W/$PKGDIR/zz_demo_test.go
(cd $W && timeout 600 go test -vet=off -count=1 -run "^$RUNPAT" ./$PKGDIR > $OUT/demo_without.txt 2>&1); R0=$?
res "demo without change: exit $R0"
# 2. apply the change
(cd $W && git apply $OUT/patch.diff) || { res "git apply failed (hook lines added since the change was written?): retrying with patch -F3";
  (cd $W && git checkout -q -- . && patch -p1 -F3 --no-backup-if-mismatch < $OUT/patch.diff > $OUT/patch_fuzz.log 2>&1 && ! find . -name '*.rej' | grep -q .) || {
    res "patch -F3 failed: three-way merge against the commit the change was written on (${SEEDBASE:-9bfe275})"
    (cd $W && git checkout -q -- . && git clean -fdq
     B=/tmp/seedbase_$ID; rm -rf $B; mkdir -p $B/base $B/theirs
     ok=1
     for f in $(grep '^+++ b/' $OUT/patch.diff | sed 's#^+++ b/##'); do
       mkdir -p $B/base/$(dirname $f) $B/theirs/$(dirname $f)
       git -C /repo show ${SEEDBASE:-9bfe275}:$f > $B/base/$f 2>/dev/null || : > $B/base/$f
     done
     cp -r $B/base/. $B/theirs/ && (cd $B/theirs && patch -p1 --no-backup-if-mismatch < $OUT/patch.diff > /dev/null 2>&1) || ok=0
     for f in $(grep '^+++ b/' $OUT/patch.diff | sed 's#^+++ b/##'); do
       [ -f $f ] || { cp $B/theirs/$f $f; continue; }
       git merge-file $f $B/base/$f $B/theirs/$f || ok=0
     done
     rm -rf $B; [ $ok = 1 ]) || { res "PATCH DOES NOT APPLY"; exit 2; }
    (cd $W && git diff > $OUT/patch_adapted.diff); }; }
(cd $W && go build ./... ) || { res "DOES NOT COMPILE"; exit 2; }
(cd $W && timeout 600 go test -vet=off -count=1 -run "^$RUNPAT" ./$PKGDIR > $OUT/demo_with.txt 2>&1); R1=$?
res "demo with change: exit $R1"
rm -f $W/$PKGDIR/zz_demo_test.go
# 3. existing suite with the change
(cd $W && timeout 1500 go test -vet=off -count=1 -timeout 25m . ./mocks > $OUT/suite_with.txt 2>&1); R2=$?
res "existing tests (., ./mocks) with change: exit $R2"
# 4. the checks
for C in "$@"; do
  (cd /verif && VERIF_REPO=$W timeout 1800 ./check $C > $OUT/check_$C.txt 2>&1); RC=$?
  V=$(grep -c '^VIOLATION' $OUT/check_$C.txt)
  res "check $C on changed copy: exit $RC, VIOLATION lines $V: $(grep '^VIOLATION' $OUT/check_$C.txt | head -2 | tr '\n' ' ')"
  # keep exactly the replay files this run named on its VIOLATION lines (other runs write to replays/ concurrently)
  rm -rf $OUT/replays_$C; mkdir -p $OUT/replays_$C
  for f in $(grep '^VIOLATION' $OUT/check_$C.txt | sed 's/.*replay=\([^ ]*\).*/\1/'); do cp $f $OUT/replays_$C/ 2>/dev/null; done
  # regenerate Gen from /repo again
  (cd /verif && timeout 900 ./check $C > $OUT/check_${C}_clean.txt 2>&1); res "check $C on /repo afterwards: exit $?"
done
rm -rf $W
