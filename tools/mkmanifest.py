#!/usr/bin/env python3
"""Regenerates /verif/MANIFEST.json from lib/props_C*.py (each CFG may carry a `manifest` dict) and validates it."""
import glob, importlib, json, os, subprocess, sys
V = os.path.dirname(os.path.dirname(os.path.abspath(__file__)))
sys.path.insert(0, os.path.join(V, "lib"))
props = [json.loads(l) for l in open(os.path.join(V, "properties.jsonl"))]
cfgs = {}
for f in sorted(glob.glob(os.path.join(V, "lib", "props_C*.py"))):
    name = os.path.basename(f)[:-3]
    cfgs[name.split("_")[1]] = importlib.import_module(name).CFG
hook_commits = []
try:
    out = subprocess.run(["git", "-C", "/repo", "log", "--format=%h %s"], capture_output=True, text=True).stdout
    hook_commits = [l.split()[0] for l in out.splitlines() if l.split(" ", 1)[1].startswith("verif:")]
except Exception:
    pass
m = {
    "version": 1,
    "setup_cmd": "./setup.sh",
    "hooks": {"guard": "verif",
              "enable": "go build -tags verif -overlay .build/overlay_<cxx>.json (harness overlay files are injected into package sarama; hook call sites in /repo are no-ops without the tag)",
              "baseline_off_cmd": "cd /repo && go test -mod=mod -json -vet=off -count=1 -timeout 25m ./...",
              "source_commits": hook_commits, "add_only": True},
    "engines": [
        {"name": "lean-model+proofs", "path": "lean/", "serves_properties": sorted(cfgs), "kind_free_text": "Lean 4 models, property theorems (Props/), bridge obligations over definitions regenerated from /repo (Gen/, Bridge/), axiom audit"},
        {"name": "extract", "path": "tools/extract/", "serves_properties": sorted(c for c in cfgs if os.path.exists(os.path.join(V, "tools/extract/specs", c + ".json"))), "kind_free_text": "Go AST -> Lean translator for small pure functions, constants and switch tables"},
        {"name": "correspondence harness", "path": "harness/", "serves_properties": sorted(cfgs), "kind_free_text": "Go harness driving the real code in-process (build tag verif + overlay), line protocol, compiled Lean model drivers, property oracles"},
    ],
    "checks": [], "not_applicable": [],
    "notes": "All checks: ./check <Cxx> --tier quick|thorough. See DESIGN.md.",
}
for p in props:
    pid = p["id"]
    c = cfgs.get(pid)
    if not c or not c.get("manifest"):
        m["not_applicable"].append({"property_id": pid, "reason": (c or {}).get("na_reason", "check not yet built (work in progress; DESIGN.md section 7 has the plan)")})
        continue
    mf = c["manifest"]
    m["checks"].append({
        "property_id": pid,
        "quick_cmd": "./check %s --tier quick" % pid,
        "thorough_cmd": "./check %s --tier thorough" % pid,
        "evidence_file": "/verif/evidence/%s.json" % pid,
        "replay_cmd_template": "./check %s --replay {path}" % pid,
        "engine": "lean-model+proofs",
        "level_claimed": {"category": c.get("level", "proof"), "text": mf["text"], "design_ref": mf.get("design_ref", "DESIGN.md section 7 " + pid)},
        "level_note": mf["note"],
        "technique": mf.get("technique", "Lean 4 theorems over a model + regenerated bridge obligations + differential correspondence with the Go code"),
    })
json.dump(m, open(os.path.join(V, "MANIFEST.json"), "w"), indent=1)
try:
    import jsonschema
    jsonschema.validate(m, json.load(open("/root/.vp/MANIFEST.schema.json")))
    print("MANIFEST valid: %d checks, %d not_applicable" % (len(m["checks"]), len(m["not_applicable"])))
except ImportError:
    print("MANIFEST written (jsonschema not available for validation)")
