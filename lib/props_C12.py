CFG = dict(
    lean_modules=["SaramaVerif.Model.Producer", "SaramaVerif.Props.C01", "SaramaVerif.Props.C12", "SaramaVerif.Model.Feeder", "SaramaVerif.Props.C18c"],
    lean_support=["SaramaVerif.Driver.ProducerTrace", "SaramaVerif.Model.PartProd", "SaramaVerif.Model.IdemBroker"],
    model="C12",
    overlay=["sim", "c12"],
    required_theorems=["Props.C18c.step_inv", "Props.C18c.consumer_interceptors_once", "Props.C18c.deliver_follows_icept", "Props.C18c.one_ack_per_response", "Props.C18c.nothing_after_closed",
                       "Props.C12.shutdown_order", "Props.C12.close_once", "Props.C12.no_send_after_close",
                       "Props.C12.outputs_closed_after_last_event", "Props.C12.no_accept_after_shutdown"],
    n={"quick": 220, "thorough": 3000, "search": 400},
    thorough_seeds=3,
    timeout={"quick": 900, "thorough": 3400},
    level="proof",
    assumptions=[
        "producer: the shutdown handshake is part of the accounting model (theorems); completion in time is observed with an 8 s bound",
        "partition consumer / consumer: close-point enumeration on the real code only (no Lean model of the dying/trigger/feeder handshake yet); consumer group and offset manager closes are exercised by the C07 / C06 harnesses",
        "the application services the output channels and stops submitting before it closes, as the API documentation requires",
    ],
    trusted_base=["hooks in /repo (build tag verif)", "simulated cluster"],
    manifest=dict(
        text="Producer - proof + trace validation: in every accepted event sequence (AsyncClose may be interleaved anywhere) the output channels are closed at most once, only after the shutdown marker passed the dispatcher and the "
             "in-flight counter reached zero, never with a message or marker still in the pipeline; no terminal event is accepted after the close (no send on a closed channel), no new message is accepted after the shutdown marker. "
             "Close-point enumeration on the real code: every producer scenario (fault scripts active: mid-request, mid-retry, backing off, cluster partly unreachable) is re-run with AsyncClose after the k-th hook event for k spread over "
             "the whole run; consumer scenarios close partition consumers (AsyncClose and Close, then Close again) and the consumer after the k-th delivered message with fetch faults active. Oracle: completion within the bound, channels "
             "closed, no panic, every message still exactly one event.",
        note="Trusted: Lean kernel, hooks, sim cluster. Exploration-level for the consumer-side components; the Lean theorems cover the producer handshake only. Time bounds are observed, not proved.",
        technique="Lean 4 proof of the producer shutdown handshake + trace validation + close-at-every-k enumeration on the real code",
    ),
)
