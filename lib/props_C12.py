_L = "Props.C12life."
_LIFE = [
    # partition consumer (dying / trigger / feeder hand-shake)
    "PC.step_inv", "PC.never_double_close_pc", "PC.no_send_after_close_pc", "PC.holder_finds_channels_open",
    "PC.outputs_closed_after_last_event_pc", "PC.close_order_pc", "PC.no_deadlock_after_close_pc",
    # broker worker of the consumer
    "BC.never_double_close_bc", "BC.no_send_after_close_bc", "BC.input_closed_when_unreferenced", "BC.close_order_bc",
    "BC.no_deadlock_after_close_bc", "BC.close_terminates_bc",
    # consumer
    "Cons.close_order_consumer",
    # consumer group + session
    "Grp.never_double_close_group", "Grp.no_send_after_close_group", "Grp.outputs_closed_after_last_event_group",
    "Grp.close_order_group", "Grp.close_order_session", "Grp.claims_joined_after_all_claims_done", "Grp.no_deadlock_after_close_group",
    # offset manager + POM
    "OM.never_double_close_om", "OM.close_order_om", "OM.final_loop_bounded", "OM.outputs_closed_after_last_event_om",
    "OM.no_deadlock_after_close_om", "OM.close_terminates_om", "OM.close_order_wf",
    "POM.never_double_close_pom", "POM.outputs_closed_after_last_event_pom", "POM.close_order_pom",
    # client
    "Cli.never_double_close_client", "Cli.close_order_client", "Cli.no_broker_close_after_maps_nil", "Cli.close_twice_harmless_client",
    "Cli.no_deadlock_after_close_client", "Cli.close_terminates_client",
    # broker connection
    "Br.never_double_close_broker", "Br.no_send_after_close_broker", "Br.close_order_broker", "Br.outputs_closed_after_last_event_broker",
    "Br.close_twice_harmless_broker", "Br.no_deadlock_after_close_broker", "Br.close_terminates_broker",
]
CFG = dict(
    lean_modules=["SaramaVerif.Model.Producer", "SaramaVerif.Props.C01", "SaramaVerif.Props.C12", "SaramaVerif.Model.Feeder", "SaramaVerif.Props.C18c",
                  "SaramaVerif.Model.Lifecycle", "SaramaVerif.Props.C12life"],
    lean_support=["SaramaVerif.Driver.ProducerTrace", "SaramaVerif.Model.PartProd", "SaramaVerif.Model.IdemBroker",
                  "SaramaVerif.Driver.LifecycleTrace"],
    confirm_scenario_diffs=True,
    model="C12",
    overlay=["sim", "c12"],
    required_theorems=["Props.C18c.step_inv", "Props.C18c.consumer_interceptors_once", "Props.C18c.deliver_follows_icept", "Props.C18c.one_ack_per_response", "Props.C18c.nothing_after_closed",
                       "Props.C12.shutdown_order", "Props.C12.close_once", "Props.C12.no_send_after_close",
                       "Props.C12.outputs_closed_after_last_event", "Props.C12.no_accept_after_shutdown"] + [_L + t for t in _LIFE],
    n={"quick": 220, "thorough": 3000, "search": 400},
    thorough_seeds=3,
    timeout={"quick": 900, "thorough": 3400},
    level="proof",
    assumptions=[
        "producer: the shutdown handshake is part of the accounting model (theorems); completion in time is observed with an 8 s bound",
        "consumer side (partition consumer, broker worker, consumer, group + session, offset manager + POM, client, broker): the Lean models are "
        "ACCEPTORS (specifications of the hand-shakes over the hook events), one per object; the theorems hold for every accepted event sequence and "
        "every real run of the harness scenarios is checked to be accepted (trace validation) - they are not a proof about the Go code itself",
        "the hook events (verifEvtKV \"lc.*\", build tag verif) are emitted immediately before the announced action by the goroutine performing it and are "
        "recorded under one mutex: the recorded order is a linearisation consistent with happens-before; an event and its action are not atomic, so a "
        "racy send-after-close whose hooks happen to be recorded in the good order is caught by the panic oracle (PanicHandler / recover), not by the replay",
        "each acceptor sees its own object: cross-object facts are checked by feeding a shared event to both acceptors (child -> broker worker input, POM -> offset "
        "manager, child -> consumer registry), there is no composed model of a whole consumer; the feeder's cf.* events are attributed to the partition consumer "
        "most recently started for that topic/partition",
        "group spec: no session starts after leave() (Consume racing with Close is not exercised by the harness); handleError's closed-check and the send on "
        "Errors() are two steps in the real code, so `no send after close` for the group's Errors channel is validated on the observed runs and guarded by the "
        "panic oracle, it does not follow from the hand-shake (error-forwarding goroutines are not joined by release)",
        "progress lemmas (no_deadlock_after_close_X, close_terminates_X) are about the acceptors: an enabled step exists / a measure decreases; that the real "
        "goroutine is scheduled and the network call inside it returns is observed (8 s bound), not proved",
        "paths modelled but not reached by the quick-tier scenarios: offset-out-of-range shutdown of a partition consumer, dispatcher re-dispatch failure "
        "(trigger sent to itself), left-over buffer flush of the subscription manager, release(false) of a half-built session",
        "the application services the output channels and stops submitting before it closes, as the API documentation requires; partition consumers are closed "
        "before their consumer (checked on the traces by the consumer acceptor)",
    ],
    trusted_base=["hooks in /repo (build tag verif), incl. verifID (per-object serial numbers)", "simulated cluster",
                  "harness/life (event recorder: renumbering of object ids, dropping events of objects that were not created in the current scenario)",
                  "harness/cmd/c12 supervisor (scenario families in separate process groups, merge of their outputs)"],
    manifest=dict(
        text="Producer - proof + trace validation: in every accepted event sequence (AsyncClose may be interleaved anywhere) the output channels are closed at most once, only after the shutdown marker passed the dispatcher and the "
             "in-flight counter reached zero, never with a message or marker still in the pipeline; no terminal event is accepted after the close (no send on a closed channel), no new message is accepted after the shutdown marker. "
             "Consumer side - proof about hand-shake acceptors + trace validation: for the partition consumer (dying/trigger/feeder across dispatcher, feeder and broker worker), the broker worker (reference count, input/wait/"
             "newSubscriptions), the consumer, the consumer group with its session (closed, lock, leave, errors; release: cancel, claims joined, Cleanup, offsets.Close, hbDying, hbDead), the offset manager and its POMs (closing, "
             "mainLoop, bounded final flush loop, releasePOMs), the client (closer/closed, brokers, maps; second Close) and the broker connection (responses, receiver drain, done, conn; second Close) Lean theorems show for "
             "every accepted event sequence: no channel closed twice, nothing sent after a close, public channels closed only after the last event feeding them (Messages/Errors after the feeder's last delivery, group Errors after "
             "the last session was released, POM errors after the last handleError, broker done after every promise was taken), the order of each hand-shake, an enabled step in every non-terminal state after the close, and a "
             "decreasing measure for broker worker, offset manager (Retry.Max+1 flushes), client and broker. Every consumer / group / client scenario replays the hook events of the real goroutines through these acceptors. "
             "Close-point enumeration on the real code: every producer scenario (fault scripts active: mid-request, mid-retry, backing off, cluster partly unreachable) is re-run with AsyncClose after the k-th hook event for k spread over "
             "the whole run; consumer scenarios close partition consumers (AsyncClose and Close, then Close again) and the consumer after the k-th delivered message with fetch faults active; group scenarios cancel or Close during a "
             "session; client scenarios Close with calls in flight, then again; offset-manager scenarios close 2-4 partition managers (clean or dirty, early or not) and the manager, twice, while commits fail / the "
             "connection drops / the coordinator cannot be found. A panic in a goroutine that cannot be recovered kills only its worker process and is reported with the scenario that was running; a scenario whose tear-down is wedged is "
             "reported by a watchdog. Oracle: completion within the bound, channels closed, no panic (callers and sarama's own goroutines), every message still exactly one event.",
        note="Trusted: Lean kernel, hooks, sim cluster, event recorder. The consumer-side models are specifications validated against the runs, not extracted from the code; time bounds are observed, not proved.",
        technique="Lean 4 proofs (producer accounting model; consumer-side hand-shake acceptors) + trace validation of the real goroutines' hook events + close-at-every-k enumeration on the real code",
    ),
)
