CFG = dict(
    lean_modules=["SaramaVerif.Model.Producer", "SaramaVerif.Props.C01", "SaramaVerif.Model.SyncShim", "SaramaVerif.Props.C01sync"],
    lean_support=["SaramaVerif.Driver.ProducerTrace"],
    confirm_scenario_diffs=True,
    model="C01",
    overlay=["sim", "c01"],
    required_theorems=["Props.C01.init_inv", "Props.C01.step_inv", "Props.C01.run_inv", "Props.C01.reachable_inv",
                       "Props.C01.at_most_one_outcome", "Props.C01.no_phantom_outcome", "Props.C01.closed_implies_exactly_one",
                       "Props.C01.close_after_all_outcomes", "Props.C01.close_only_when_drained", "Props.C01.pass_bound",
                       "Props.C01sync.read_returns_own_slot", "Props.C01sync.step_inv", "Props.C01sync.sync_return_is_own_outcome"],
    n={"quick": 700, "thorough": 12000, "search": 1500},
    thorough_seeds=3,
    timeout={"quick": 600, "thorough": 3000},
    level="proof",
    assumptions=[
        "Go channels, WaitGroup, goroutine scheduling: the model is an acceptor of hook-event sequences; every schedule of the real pipeline yields one sequence, validated on every run",
        "termination (that Close does return) is observed by the harness with an 8 s bound, not proved: the model proves that IF the channels are closed THEN every message has exactly one event",
        "the hook events are emitted immediately before the action they announce, by the goroutine performing it, under one mutex (a linearisation consistent with causality)",
        "idempotent mode: the pinned pipeline can treat an internal fin marker as data; the model accepts such events only with cfg.idem and counts them (phantoms); see known findings",
    ],
    trusted_base=["hooks in /repo (build tag verif): verif_hooks_on.go + verifEvt call sites in async_producer.go",
                  "simulated cluster harness/overlay/sim_cluster.go (brokers, fault scripts, idempotence rules)"],
    manifest=dict(
        text="Proof over an accounting model of the producer pipeline: for EVERY event sequence the model accepts (any schedule, fault script, retry budget, "
             "flush setting, idempotent on/off) a message has at most one terminal event, no event names anything but a submitted message, the WaitGroup counter equals "
             "live messages + internal markers, the output channels can only be closed when nothing is in flight, and closed implies exactly one event per accepted or rejected message; "
             "a message passes the dispatcher at most Retry.Max+1 times. Tie: trace validation - the real pipeline (hooks, build tag verif) runs hundreds of generated scenarios against a simulated "
             "cluster with fault scripts and every recorded event stream must be accepted by the compiled Lean model; the property's own oracle (every submitted id exactly one event, none unknown, "
             "channels closed, Close returns within the bound, SyncProducer returns) is evaluated on every run and supplies the concrete replay.",
        note="Trusted: Lean kernel; hook placement; sim cluster; harness. Not proved: that Close returns under the Go scheduler (observed with a bound); bounded-channel blocking. "
             "Known findings (idempotent mode only) are listed in known_findings.json.",
        technique="Lean 4 invariant proof over an event-acceptor model + trace validation of the hooked Go pipeline + end-to-end oracle",
    ),
)
