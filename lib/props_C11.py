CFG = dict(
    lean_modules=["SaramaVerif.Model.ConsumerParse"],
    lean_support=["SaramaVerif.GoSem", "SaramaVerif.Model.ConsumerParseWire"],
    model="C11",
    overlay=["c03"],
    required_theorems=[],
    n={"quick": 400, "thorough": 15000, "search": 800},
    thorough_seeds=4,
    level="proof",
    assumptions=[],
    trusted_base=[],
)
CFG["manifest"] = dict(text="", note="", technique="")
