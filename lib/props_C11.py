CFG = dict(
    lean_modules=["SaramaVerif.Model.ConsumerParse", "SaramaVerif.Model.ConsumerParseSpec", "SaramaVerif.Model.Txn",
                  "SaramaVerif.Lemmas.C03Core", "SaramaVerif.Lemmas.C03Resp", "SaramaVerif.Lemmas.C03Hist",
                  "SaramaVerif.Lemmas.C11Sort", "SaramaVerif.Lemmas.C11Truth", "SaramaVerif.Lemmas.C11Keeps",
                  "SaramaVerif.Lemmas.C11Resp", "SaramaVerif.Lemmas.C11Index", "SaramaVerif.Props.C11", "SaramaVerif.Bridge.C11"],
    lean_support=["SaramaVerif.GoSem", "SaramaVerif.Model.ConsumerParseWire", "SaramaVerif.Gen.C11"],
    model="C11",
    overlay=["c03"],
    required_theorems=["Props.C11.read_committed_exact", "Props.C11.read_committed_exact_perm",
                       "Props.C11.read_committed_exact_history", "Props.C11.faithful_index_exists",
                       "Props.C11.faithfulIndex_perm", "Props.C11.visibleIso_mem", "Props.C11.visibleIso_uncommitted",
                       "Props.C11.step_window_iso", "Props.C11.control_never_delivered_but_advances",
                       "Props.C11.read_uncommitted_all_data", "Props.C11.pid_reuse_after_abort",
                       "Lemmas.C11.consume_spec", "Lemmas.C11.mem_sortAborted", "Lemmas.C11.index_agrees",
                       "Lemmas.C11.nextMarker_nextAbort", "Lemmas.C11.keeps_truth", "Lemmas.C11.resp_rc",
                       "Lemmas.C11.brokerIndex_faithful", "Lemmas.C03.parse_eq_walk", "Lemmas.C03.resp_core",
                       "Bridge.C11.fetchLadder_eq", "Bridge.C11.isolation_level_is_sent"],
    n={"quick": 400, "thorough": 8000, "search": 800},
    thorough_seeds=4,
    level="proof",
    assumptions=[
        "faithful broker as in C03 (FaithfulData) and a faithful aborted-transaction index (FaithfulIndex): it lists (producer id, first offset) of every aborted transaction of the log not finished before the asked offset and beginning at or below the end of the returned data; order, duplicates and additional later transactions are unconstrained; such an index exists for every log and fetch (theorem faithful_index_exists / brokerIndex_faithful)",
        "well-formed transactional log: LogWF plus BaseWF (a batch's base offset lies above every earlier batch's last offset and not above its own)",
        "the returned data contains no batch emptied by compaction and control batches carry a readable control record (hypotheses of FaithfulTxnData)",
        "the broker answers according to the isolation level carried by the FetchRequest; that the request carries the configured level for every request version v4+ is a bridge obligation (fetchLadder_eq / isolation_level_is_sent, regenerated from fetchNewMessages) and is exercised end-to-end against a request-faithful broker",
        "attribute bits of a v2 batch outside codec / timestamp-type / transactional / control (0x3f) are reserved and ignored by clients (Kafka >= 3.1 sets 0x40 hasDeleteHorizonMs on cleaned batches): the model's batches have no such field, the harness sets these bits on the wire (#attrs token, not seen by the model) and the decoded batch must parse as if they were absent",
        "ground truth: a transactional data batch is hidden under ReadCommitted iff the first control batch of its producer after it in the log is an abort marker (undecided transactions count as visible; a faithful broker does not serve them to read-committed fetches)",
        "Fetch.Max guard and int64 non-overflow as in C03; goroutine pipeline observed end-to-end only"],
    trusted_base=[],
)
CFG["manifest"] = dict(
    text="Proof: Lean theorems over ALL well-formed transactional logs (any number of producer ids, overlapping transactions, the same id aborting then committing, "
         "non-transactional batches and legacy messages in between), every asked offset (also inside a transaction), every fetch boundary and every faithful aborted-transaction "
         "index in any order: with ReadCommitted parseResponse hands over exactly the records of committed transactions and non-transactional data of the fetched range, no record "
         "of an aborted transaction (read_committed_exact, _perm, _history: whole fetch histories incl. errors / throttling / partial data); at either isolation level no control "
         "record is delivered and the next offset lies beyond every record of the response, markers included (control_never_delivered_but_advances); with ReadUncommitted all data "
         "records are delivered whatever the transaction outcome (read_uncommitted_all_data). The abort filter is proved correct via an invariant of the sorted index / aborted-id set "
         "(consume_spec, JInv) and the agreement of a faithful index with the log's ground truth (index_agrees). "
         "The request side: the version ladder of fetchNewMessages (request version, MaxBytes, Isolation, SessionID/Epoch, RackID per Config.Version) is re-translated from /repo on every "
         "run and proved equal to the expected table (the configured isolation level is sent with every request version v4+). "
         "Tie: shared parse model, bridge obligations of C03; the abort-filter loop (sort, break, map add / delete, continue) is tied by differential execution: generated "
         "transactional logs, fetch boundaries at every position, shuffled / loose indexes, real FetchResponse encode -> decode -> parseResponse vs the compiled model, property oracle "
         "with the generator's ground truth, end-to-end stream (real Consumer) against a MockBroker that is faithful to the REQUEST: read-committed requests get "
         "data below the last stable offset plus the aborted index, read-uncommitted requests get data up to the high watermark and no index; every Kafka version 0.11-2.8 "
         "(fetch v4/v7/v10/v11) x both isolation levels, logs with committed, aborted and still open transactions. A further family (own PRNG) serves control batches and some data batches with reserved attribute bits "
         "set on the wire (0x40 and higher bits, batch CRC recomputed) through the parse correspondence and end-to-end: the consumer must decode them, pass the markers and "
         "deliver the committed data behind them.",
    note="Trusted: Lean kernel; harness/line protocol; translator + GoSem for the shared bridge (C03). Modelled not verified: broker behaviour (FaithfulData, FaithfulIndex), Go's "
         "unstable sort.Slice (the model sorts stably; the theorems hold for every order of the index, equal first offsets are consumed in the same step). Not modelled: goroutines.",
    technique="Lean 4 proof (invariants over the response walk, relational ground truth, omega) + differential correspondence + end-to-end observation",
)
