#!/usr/bin/env python3
"""
Orchestrator for the sarama property checks (see DESIGN.md section 4).

  check <Cxx> [--tier quick|thorough] [--seed N] [--replay FILE]

Per run:
  1. regenerate lean/SaramaVerif/Gen/<Cxx>.lean from /repo's working tree (tools/extract), build the Lean
     modules the property depends on (model, property theorems, bridge obligations), audit axioms;
  2. build the Go harness of the property from /repo's working tree (-tags verif, overlay files), run it:
     it drives the real code, writes operation lines, the implementation's canonical answers and the
     verdicts of the property's own oracle (IO);
  3. run the same operation lines through the compiled Lean model driver and diff (correspondence, CC);
  4. if a proof obligation or the correspondence broke, search for a concrete failing input (more seeds,
     wider generators) and report it as the replay; if none is found report the violation naming what no
     longer checks, ending the line with no-failing-input-found;
  5. write evidence/<Cxx>.json.
"""
import argparse, fcntl, glob, hashlib, json, os, re, shutil, subprocess, sys, time

VERIF = os.path.dirname(os.path.dirname(os.path.abspath(__file__)))
REPO = os.environ.get("VERIF_REPO", "/repo")
LEAN = os.path.join(VERIF, "lean")
BUILD = os.path.join(VERIF, ".build")
HARNESS = os.path.join(VERIF, "harness")
GOENV = dict(os.environ, GOFLAGS="-mod=mod", GOPROXY="off", GOSUMDB="off", GOTOOLCHAIN="local",
             CGO_ENABLED=os.environ.get("CGO_ENABLED", "0"))
ALLOWED_AXIOMS = {"propext", "Classical.choice", "Quot.sound"}

sys.path.insert(0, os.path.join(VERIF, "lib"))


def sh(cmd, cwd=None, env=None, timeout=None, inp=None):
    """run a command in a process group of its own; on timeout the whole group is killed (harnesses spawn workers)"""
    import signal
    t = time.time()
    def _child():
        # own process group (killed as a whole on timeout) and killed when this check process dies (no orphans)
        os.setsid()
        try:
            import ctypes
            ctypes.CDLL("libc.so.6").prctl(1, int(signal.SIGKILL))
        except Exception:
            pass
    p = subprocess.Popen(cmd, cwd=cwd, env=env, stdin=subprocess.PIPE if inp is not None else None,
                         stdout=subprocess.PIPE, stderr=subprocess.STDOUT, shell=isinstance(cmd, str),
                         preexec_fn=_child)
    try:
        out, _ = p.communicate(input=inp, timeout=timeout)
        out = out.decode("utf-8", "replace") if isinstance(out, bytes) else (out or "")
        return p.returncode, out, time.time() - t
    except subprocess.TimeoutExpired:
        try:
            os.killpg(p.pid, signal.SIGKILL)
        except Exception:
            pass
        try:
            out, _ = p.communicate(timeout=10)
        except Exception:
            out = b""
        out = out.decode("utf-8", "replace") if isinstance(out, bytes) else (out or "")
        return 124, out + "\n[timeout]", time.time() - t


class Lock:
    def __init__(self, name):
        os.makedirs(BUILD, exist_ok=True)
        self.path = os.path.join(BUILD, name + ".lock")

    def __enter__(self):
        self.f = open(self.path, "w")
        fcntl.flock(self.f, fcntl.LOCK_EX)
        return self

    def __exit__(self, *a):
        fcntl.flock(self.f, fcntl.LOCK_UN)
        self.f.close()


def write_if_changed(path, content):
    try:
        if open(path).read() == content:
            return False
    except FileNotFoundError:
        pass
    os.makedirs(os.path.dirname(path), exist_ok=True)
    tmp = path + ".tmp%d" % os.getpid()
    open(tmp, "w").write(content)
    os.replace(tmp, path)
    return True


# ------------------------------------------------------------------------------------------------
# step 1: regenerated artefacts + Lean build + audit

def build_extractor():
    """(re)build tools/extract if its sources are newer than the binary"""
    src = glob.glob(os.path.join(VERIF, "tools/extract/*.go"))
    binp = os.path.join(BUILD, "extract")
    if not src:
        return None
    if os.path.exists(binp) and all(os.path.getmtime(s) <= os.path.getmtime(binp) for s in src):
        return binp
    with Lock("go-extract"):
        rc, out, _ = sh(["go", "build", "-o", binp, "."], cwd=os.path.join(VERIF, "tools/extract"), env=GOENV)
    if rc != 0:
        raise RuntimeError("extractor build failed:\n" + out)
    return binp


def regen(prop, log):
    """run the extractor for this property; returns (ok, messages, n_generated_defs)"""
    spec = os.path.join(VERIF, "tools/extract/specs", prop + ".json")
    target = os.path.join(LEAN, "SaramaVerif/Gen", prop + ".lean")
    if not os.path.exists(spec):
        return True, [], 0
    binp = build_extractor()
    rc, out, dt = sh([binp, "-repo", REPO, "-spec", spec, "-prop", prop], timeout=120)
    log("extract %s rc=%d %.1fs" % (prop, rc, dt))
    msgs = []
    # the extractor prints the Lean file on stdout between markers, diagnostics as lines "EXTRACT-ERROR ..."
    m = re.search(r"-----BEGIN LEAN-----\n(.*)-----END LEAN-----", out, re.S)
    if not m:
        return False, ["extractor produced no output: " + out[-2000:]], 0
    content = m.group(1)
    for l in out.splitlines():
        if l.startswith("EXTRACT-ERROR"):
            msgs.append(l)
    with Lock("lake"):
        write_if_changed(target, content)
    ndefs = len(re.findall(r"^(?:def|abbrev) ", content, re.M))
    return (len(msgs) == 0), msgs, ndefs


def lake_build(targets, log):
    with Lock("lake"):
        rc, out, dt = sh(["lake", "build"] + targets, cwd=LEAN, timeout=1800)
    log("lake build %s rc=%d %.1fs" % (" ".join(targets), rc, dt))
    return rc, out


def parse_lean_errors(out):
    """[(file, line, message-first-line)] for each `error:` in lake output"""
    errs = []
    for m in re.finditer(r"^error: (\S+?\.lean):(\d+):(\d+): (.*)$", out, re.M):
        errs.append((m.group(1), int(m.group(2)), m.group(4)))
    return errs


def theorem_at(path, line):
    """name of the theorem/def enclosing `line` of a Lean file"""
    try:
        lines = open(os.path.join(LEAN, path) if not os.path.isabs(path) else path).read().splitlines()
    except Exception:
        return "?"
    for i in range(min(line, len(lines)) - 1, -1, -1):
        m = re.match(r"\s*(?:private |protected )?(theorem|lemma|def|example|instance|abbrev)\s+([^\s:(\[{]+)?", lines[i])
        if m:
            return (m.group(2) or m.group(1))
    return "?"


def audit(modules, log):
    """returns {module: [(theorem, [axioms])]}; modules that are not built are absent"""
    src = "import SaramaVerif.Audit\n" + "".join("import %s\n" % m for m in modules) + \
          "".join("#audit_module %s\n" % m for m in modules)
    os.makedirs(BUILD, exist_ok=True)
    f = os.path.join(BUILD, "audit_%d.lean" % os.getpid())
    open(f, "w").write(src)
    rc, out, dt = sh(["lake", "env", "lean", f], cwd=LEAN, timeout=600)
    os.unlink(f)
    log("audit rc=%d %.1fs" % (rc, dt))
    res = {}
    for l in out.splitlines():
        if l.startswith("AUDIT "):
            parts = l.split(" ")
            mod, thm = parts[1], parts[2]
            axs = [a for a in (parts[3] if len(parts) > 3 else "").split(",") if a]
            if re.search(r"\.(eq_def|eq_\d+|match_\d+.*|proof_\d+|induct|induct_unfolding|fun_cases.*|sizeOf_spec|injEq|inj|noConfusion.*|congr_simp|ext|ext_iff|ctorIdx.*|ofNat_ctorIdx|toCtorIdx.*)$", thm):
                continue
            res.setdefault(mod, []).append((thm, axs))
    return rc, out, res


def grep_forbidden(modules):
    """forbidden tokens in the Lean sources of the given modules (outside comments)"""
    bad = []
    pat = re.compile(r"\b(sorry|admit|native_decide|bv_decide|implemented_by|unsafe)\b|^\s*axiom\s|maxHeartbeats\s+0\b")
    for m in modules:
        p = os.path.join(LEAN, m.replace(".", "/") + ".lean")
        if not os.path.exists(p):
            continue
        txt = open(p).read()
        txt = re.sub(r"/-.*?-/", lambda mm: "\n" * mm.group(0).count("\n"), txt, flags=re.S)
        for i, l in enumerate(txt.splitlines(), 1):
            l2 = l.split("--")[0]
            if pat.search(l2):
                bad.append("%s:%d: %s" % (m, i, l.strip()))
    return bad


# ------------------------------------------------------------------------------------------------
# step 2/3: harness + model

def build_harness(prop, cfg, log, race=False):
    """build /verif/harness/cmd/<cxx> against /repo's working tree with the property's overlay files"""
    cxx = prop.lower()
    # everything that depends on the repository path carries a tag, so that a run against a scratch copy
    # (VERIF_REPO) never clobbers the files of a run against /repo
    tag = "" if REPO == "/repo" else "-" + hashlib.sha1(REPO.encode()).hexdigest()[:8]
    rep = {}
    for pre in cfg.get("overlay", [cxx]):
        for f in glob.glob(os.path.join(HARNESS, "overlay", pre + "_*.go")):
            rep[os.path.join(REPO, "zz_verif_" + os.path.basename(f))] = f
    os.makedirs(BUILD, exist_ok=True)
    ov = os.path.join(BUILD, "overlay_%s%s.json" % (cxx, tag))
    json.dump({"Replace": rep}, open(ov, "w"))
    binp = os.path.join(BUILD, "svh-" + cxx + tag + ("-race" if race else ""))
    # per-property module file: `replace sarama => REPO` (REPO is /repo unless VERIF_REPO points to a scratch copy);
    # its go.sum is the repo's
    modf = os.path.join(BUILD, "gomod_%s%s.mod" % (cxx, tag))
    mod = open(os.path.join(HARNESS, "go.mod")).read().replace("=> /repo", "=> " + REPO)
    open(modf, "w").write(mod)
    try:
        shutil.copyfile(os.path.join(REPO, "go.sum"), modf[:-4] + ".sum")
    except Exception:
        pass
    env = dict(GOENV)
    # cfg["build_tags"]: extra tags of the full build; cfg["fallback_tags"] (optional): tags of a second attempt with
    # the parts of the harness that only use stable API, when the full harness (overlay calling unexported code) does
    # not compile against the tree under test.  A fallback build is recorded in cfg["_degraded_build"].
    cfg.pop("_degraded_build", None)
    def attempt(tags):
        cmd = ["go", "build", "-modfile", modf, "-tags", ",".join(["verif"] + list(tags)), "-overlay", ov, "-o", binp]
        if race:
            cmd.insert(2, "-race")
            env["CGO_ENABLED"] = "1"
        cmd.append("./cmd/" + cxx)
        with Lock("go-" + cxx):
            return sh(cmd, cwd=HARNESS, env=env, timeout=900)
    rc, out, dt = attempt(cfg.get("build_tags", []))
    log("go build %s rc=%d %.1fs" % (cxx, rc, dt))
    if rc != 0 and cfg.get("fallback_tags") is not None:
        rc2, out2, dt2 = attempt(cfg["fallback_tags"])
        log("go build %s (fallback tags %s) rc=%d %.1fs" % (cxx, cfg["fallback_tags"], rc2, dt2))
        if rc2 == 0:
            cfg["_degraded_build"] = out
            return 0, out, binp
    return rc, out, binp


def run_harness(binp, outdir, seed, tier, n=None, replay=None, timeout=1500, extra=None):
    shutil.rmtree(outdir, ignore_errors=True)
    os.makedirs(outdir)
    cmd = [binp, "-out", outdir, "-seed", str(seed), "-tier", tier]
    if n:
        cmd += ["-n", str(n)]
    if replay:
        cmd += ["-replay", replay]
    if extra:
        cmd += extra
    env = dict(os.environ, GOMEMLIMIT="6GiB", GOTRACEBACK="single")
    rc, out, dt = sh(cmd, env=env, timeout=timeout)
    return rc, out, dt


def drv_target(prop):
    return "svdrv_" + prop.lower()


def run_model(model, outdir, log):
    drv = os.path.join(LEAN, ".lake/build/bin", drv_target(model))
    ops = os.path.join(outdir, "ops.txt")
    with open(ops, "rb") as f:
        p = subprocess.run([drv], stdin=f, stdout=open(os.path.join(outdir, "model.txt"), "wb"),
                           stderr=subprocess.PIPE, timeout=1500)
    return p.returncode, p.stderr.decode("utf-8", "replace")


def diff_outputs(outdir, limit=20):
    """line-by-line comparison; returns (n_lines, [(lineno, op, impl, model)])"""
    ops = open(os.path.join(outdir, "ops.txt")).read().split("\n")
    impl = open(os.path.join(outdir, "impl.txt")).read().split("\n")
    model = open(os.path.join(outdir, "model.txt")).read().split("\n")
    if ops and ops[-1] == "":
        ops.pop()
    if impl and impl[-1] == "":
        impl.pop()
    if model and model[-1] == "":
        model.pop()
    diffs = []
    n = len(ops)
    for i in range(n):
        a = impl[i] if i < len(impl) else "<missing>"
        b = model[i] if i < len(model) else "<missing>"
        if a != b:
            diffs.append((i + 1, ops[i], a, b))
            if len(diffs) >= limit:
                break
    return n, diffs


def confirm_scenario_diffs(prop, cfg, binp, od, diffs, tier, log):
    """Trace replays translate hook events recorded by concurrent goroutines; where the recorded order does not
    determine the real one the translation skips, but a residual race in the translation must not become an alarm.
    A difference that lies inside a scenario (preceding `scmark <token> <seed> …` line) is kept only if re-running that
    scenario (replay mode: the harness repeats it several times) shows a difference or an oracle failure again, in one
    of two attempts.  Differences outside any scenario are kept as they are.  Returns (kept, number dropped)."""
    ops = open(os.path.join(od, "ops.txt")).read().split("\n")
    by_sc, loose = {}, []
    for d in diffs:
        i = d[0] - 1
        mark = None
        while i >= 0:
            if ops[i].startswith("scmark "):
                mark = ops[i][len("scmark "):]
                break
            i -= 1
        if mark is None:
            loose.append(d)
        else:
            by_sc.setdefault(mark, []).append(d)
    kept, dropped = list(loose), 0
    for k, (mark, ds) in enumerate(by_sc.items()):
        if k >= 6:       # many scenarios differ: no need to confirm each one
            kept += ds
            continue
        confirmed = False
        for attempt in range(2):
            rd = os.path.join(od, "confirm_%d_%d" % (k, attempt))
            rp = os.path.join(od, "confirm_%d.ops" % k)
            open(rp, "w").write(mark + "\n")
            rc, out, dt = run_harness(binp, rd, 1, tier, replay=rp, timeout=600, extra=cfg.get("harness_args"))
            if rc != 0:
                confirmed = True
                break
            if read_io(rd):
                confirmed = True
                break
            mrc, merr = run_model(cfg["model"], rd, log)
            if mrc != 0 or diff_outputs(rd)[1]:
                confirmed = True
                break
        log("confirm %s: %s" % (mark, "reproduced" if confirmed else "NOT reproduced in 2 replays - dropped (%d differences)" % len(ds)))
        if confirmed:
            kept += ds
        else:
            dropped += len(ds)
    return kept, dropped


def read_io(outdir):
    res = []
    p = os.path.join(outdir, "io.jsonl")
    if os.path.exists(p):
        for l in open(p):
            l = l.strip()
            if l:
                try:
                    res.append(json.loads(l))
                except Exception:
                    res.append({"sig": "unparsable-io-line", "input": l, "detail": ""})
    return res


def read_stats(outdir):
    try:
        return json.load(open(os.path.join(outdir, "stats.json")))
    except Exception:
        return {}


# ------------------------------------------------------------------------------------------------

def load_known():
    res = []
    for p in [os.path.join(VERIF, "known_findings.json")] + sorted(glob.glob(os.path.join(VERIF, "known_findings.d", "*.json"))):
        if os.path.exists(p):
            res += json.load(open(p))
    return res


def write_replay(prop, obj):
    d = os.path.join(VERIF, "replays", prop)
    os.makedirs(d, exist_ok=True)
    h = hashlib.sha1(json.dumps(obj, sort_keys=True).encode()).hexdigest()[:12]
    p = os.path.join(d, h + ".json")
    obj = dict(obj)
    obj["how_to_replay"] = "./check %s --replay %s" % (prop, p)
    json.dump(obj, open(p, "w"), indent=1)
    return p


def load_props():
    import importlib
    props = {}
    for f in sorted(glob.glob(os.path.join(VERIF, "lib", "props_C*.py"))):
        name = os.path.basename(f)[:-3]
        mod = importlib.import_module(name)
        props[name.split("_")[1]] = mod.CFG
    return props


def setup_all():
    """build everything the checks need: extractor, generated files, Lean modules + drivers, Go harnesses"""
    props = load_props()
    ok = True
    logs = []
    log = lambda s: (logs.append(s), print(s, flush=True))
    build_extractor()
    targets = []
    for prop, cfg in props.items():
        try:
            regen(prop, log)
            for cmd in cfg.get("pregen", []):
                sh([c.replace("{REPO}", REPO) for c in cmd], cwd=VERIF, env=GOENV, timeout=600)
        except Exception as e:
            print("setup: regen %s: %s" % (prop, e))
        targets += list(cfg["lean_modules"])
        if cfg.get("model"):
            targets.append(drv_target(prop))
    rc, out = lake_build(["SaramaVerif.Audit"] + targets, log)
    if rc != 0:
        print(out[-3000:])
        # not fatal: a single broken module must not prevent the other properties' checks from running
        for t in targets:
            lake_build([t], log)
    for prop, cfg in props.items():
        rc, out, _ = build_harness(prop, cfg, log)
        if rc != 0:
            print(out[-2000:])
            ok = False
    return 0 if ok else 1


def main():
    if "--setup-all" in sys.argv:
        return setup_all()
    PROPS = load_props()
    ap = argparse.ArgumentParser()
    ap.add_argument("prop")
    ap.add_argument("--tier", default=os.environ.get("VERIF_TIER", "quick"))
    ap.add_argument("--seed", type=int, default=int(os.environ.get("VERIF_SEED", "1")))
    ap.add_argument("--replay")
    ap.add_argument("-v", action="store_true")
    a = ap.parse_args()
    prop = a.prop
    if prop not in PROPS:
        print("unknown property", prop)
        return 2
    cfg = PROPS[prop]
    tier = "thorough" if a.tier == "thorough" else "quick"
    # one run of a property's check at a time (the regenerated Gen/<Cxx>.lean, the harness binary and the evidence file are
    # per property): a second run waits here; the lock is released when this process exits
    os.makedirs(BUILD, exist_ok=True)
    global _PROP_LOCK
    _PROP_LOCK = open(os.path.join(BUILD, "check_%s.lock" % prop), "w")
    fcntl.flock(_PROP_LOCK, fcntl.LOCK_EX)
    t0 = time.time()
    logs = []

    def log(s):
        logs.append("[%6.1fs] %s" % (time.time() - t0, s))
        if a.v:
            print(logs[-1], file=sys.stderr)

    proof_broken = []     # [{what, detail}]
    corr_broken = []      # [{stream, line, op, impl, model}]
    io_fails = []         # [{sig,input,detail}]
    infra = []            # infrastructure failures of the check itself

    # ---------------- 1. regenerate, build, audit
    gen_ok, gen_msgs, n_gen = regen(prop, log)
    # further generators of this property (CFG["pregen"] = [[cmd, arg, …], …]; {REPO} = repository under test,
    # cwd = /verif); they write their own files under lean/SaramaVerif/Gen/
    for cmd in cfg.get("pregen", []):
        cmd = [c.replace("{REPO}", REPO) for c in cmd]
        with Lock("lake"):
            rc, out, dt = sh(cmd, cwd=VERIF, env=GOENV, timeout=600)
        log("pregen %s rc=%d %.1fs" % (" ".join(cmd)[:80], rc, dt))
        if rc != 0:
            gen_ok = False
            gen_msgs.append("EXTRACT-ERROR pregen %s: %s" % (cmd[0], out[-600:].replace("\n", " | ")))
    if not gen_ok:
        for m in gen_msgs:
            proof_broken.append({"what": "extraction", "detail": m})
    modules = list(cfg["lean_modules"])
    bridge = [m for m in modules if ".Bridge." in m]
    core = [m for m in modules if m not in bridge]
    built = []
    # the driver and the hand-written model/property theorems do not depend on Gen/: build them first
    rc, out = lake_build(core + ([drv_target(prop)] if cfg.get("model") else []), log)
    if rc != 0:
        for (f, ln, msg) in parse_lean_errors(out):
            proof_broken.append({"what": "theorem %s (%s:%d)" % (theorem_at(f, ln), f, ln), "detail": msg})
        if not parse_lean_errors(out):
            infra.append("lake build failed: " + out[-1500:])
        # find which modules did build
        for m in core:
            rc1, _ = lake_build([m], log)
            if rc1 == 0:
                built.append(m)
    else:
        built += core
    for m in bridge:
        rc, out = lake_build([m], log)
        if rc != 0:
            errs = parse_lean_errors(out)
            for (f, ln, msg) in errs:
                proof_broken.append({"what": "bridge obligation %s (%s:%d)" % (theorem_at(f, ln), f, ln), "detail": msg})
            if not errs:
                proof_broken.append({"what": "bridge module " + m, "detail": out[-800:]})
        else:
            built.append(m)
    arc, aout, aud = audit(built, log) if built else (0, "", {})
    if arc != 0:
        infra.append("audit failed: " + aout[-800:])
    obligations = []
    for m in built:
        for (thm, axs) in aud.get(m, []):
            ok = set(axs) <= ALLOWED_AXIOMS
            obligations.append({"module": m, "theorem": thm, "axioms": axs, "ok": ok})
            if not ok:
                proof_broken.append({"what": "theorem " + thm, "detail": "depends on axioms " + ",".join(axs)})
    have = {o["theorem"] for o in obligations}
    for req in cfg.get("required_theorems", []):
        if req not in have:
            proof_broken.append({"what": "theorem " + req, "detail": "required property theorem missing or not built"})
    for b in grep_forbidden(modules + cfg.get("lean_support", [])):
        proof_broken.append({"what": "forbidden construct", "detail": b})
    n_oblig = len(obligations) + sum(1 for p in proof_broken if p["what"].startswith(("bridge", "theorem", "extraction")) and "axioms" not in p["detail"])
    n_disch = sum(1 for o in obligations if o["ok"])
    if tier == "thorough" and built:
        rc, out, dt = sh(["lake", "env", "leanchecker"] + [m for m in built if ".Props." in m or ".Bridge." in m],
                         cwd=LEAN, timeout=1800)
        log("leanchecker rc=%d %.1fs" % (rc, dt))
        if rc != 0:
            proof_broken.append({"what": "leanchecker", "detail": out[-800:]})

    # ---------------- 2/3. harness + model + diff
    stats_all = []
    unconfirmed = 0
    total_lines = 0
    harness_out = ""
    # one scratch directory per run (property, tree, tier, pid): concurrent runs never share files; stale ones are removed
    import atexit, shutil
    runroot = os.path.join(BUILD, "run")
    os.makedirs(runroot, exist_ok=True)
    for d in os.listdir(runroot):
        m = re.match(r"^(C\d\d)(-[0-9a-f]{8})?(-(quick|thorough)-(\d+))?$", d)
        if m and m.group(1) == prop and (m.group(5) is None or not os.path.exists("/proc/" + m.group(5))):
            shutil.rmtree(os.path.join(runroot, d), ignore_errors=True)
    outbase = os.path.join(runroot, prop + ("" if REPO == "/repo" else "-" + hashlib.sha1(REPO.encode()).hexdigest()[:8])
                           + "-%s-%d" % (tier, os.getpid()))
    if not os.environ.get("VERIF_KEEP_RUN"):
        atexit.register(lambda: shutil.rmtree(outbase, ignore_errors=True))
    brc, bout, binp = build_harness(prop, cfg, log)
    hooks = cfg.get("custom")
    if cfg.get("_degraded_build"):
        corr_broken.append({"stream": "harness-build-pieces", "line": 0,
                            "op": "go build -tags verif,%s ./cmd/%s" % (",".join(cfg.get("build_tags", [])), prop.lower()),
                            "impl": "correspondence of the unexported pieces not checkable: overlay does not compile: "
                                    + cfg["_degraded_build"][-1200:], "model": ""})
    if brc != 0:
        corr_broken.append({"stream": "harness-build", "line": 0, "op": "go build -tags verif ./cmd/" + prop.lower(),
                            "impl": bout[-1500:], "model": ""})
    else:
        runs = []
        corpus = sorted(glob.glob(os.path.join(VERIF, "corpus", prop, "*.ops")))
        if a.replay:
            rp = a.replay
            if rp.endswith(".json"):
                obj = json.load(open(rp))
                ops = obj.get("ops") or ([obj["op"]] if obj.get("op") else [])
                rp = os.path.join(BUILD, "replay_%s.ops" % prop)
                open(rp, "w").write("\n".join(ops) + "\n")
            runs.append(("replay", dict(replay=rp)))
        else:
            for c in corpus:
                runs.append(("corpus:" + os.path.basename(c), dict(replay=c)))
            seeds = [a.seed] if tier == "quick" else [a.seed + i for i in range(cfg.get("thorough_seeds", 4))]
            for s in seeds:
                runs.append(("gen:seed=%d" % s, dict(seed=s, n=cfg.get("n", {}).get(tier))))
        for (name, kw) in runs:
            od = os.path.join(outbase, re.sub(r"[^A-Za-z0-9_.=-]", "_", name))
            rc, out, dt = run_harness(binp, od, kw.get("seed", a.seed), tier, n=kw.get("n"), replay=kw.get("replay"),
                                      timeout=cfg.get("timeout", {}).get(tier, 1500), extra=cfg.get("harness_args"))
            log("harness %s rc=%d %.1fs" % (name, rc, dt))
            harness_out = out[-3000:]
            if rc != 0:
                corr_broken.append({"stream": name, "line": 0, "op": "harness run", "impl": "exit %d: %s" % (rc, out[-1500:]), "model": ""})
                continue
            st = read_stats(od)
            st["stream"] = name
            stats_all.append(st)
            io_fails += [dict(x, stream=name) for x in read_io(od)]
            if cfg.get("model"):
                mrc, merr = run_model(cfg["model"], od, log)
                if mrc != 0:
                    infra.append("model driver failed: " + merr[-500:])
                    continue
                n, diffs = diff_outputs(od)
                total_lines += n
                log("diff %s: %d lines, %d differences" % (name, n, len(diffs)))
                if diffs and name.startswith("gen:") and cfg.get("confirm_scenario_diffs"):
                    diffs, dropped = confirm_scenario_diffs(prop, cfg, binp, od, diffs, tier, log)
                    unconfirmed += dropped
                for (ln, op, im, mo) in diffs:
                    corr_broken.append({"stream": name, "line": ln, "op": op, "impl": im, "model": mo})
            if hooks:
                hooks(prop, od, name, corr_broken, io_fails, log)
                stats_all += cfg.pop("_extra_stats", [])   # statistics of an extra stream the hook ran

    # ---------------- 4. search for a concrete failing input when something broke
    searched = 0
    if (proof_broken or corr_broken) and not io_fails and brc == 0 and not a.replay:
        budget = 60 if tier == "quick" else 600
        ts = time.time()
        s = a.seed + 1000
        while time.time() - ts < budget and not io_fails:
            od = os.path.join(outbase, "search_%d" % s)
            rc, out, dt = run_harness(binp, od, s, "thorough" if tier == "thorough" else "quick",
                                      n=cfg.get("n", {}).get("search"), timeout=budget, extra=cfg.get("harness_args"))
            searched += 1
            if rc == 0:
                io_fails += [dict(x, stream="search:seed=%d" % s) for x in read_io(od)]
                st = read_stats(od)
                st["stream"] = "search:seed=%d" % s
                stats_all.append(st)
            shutil.rmtree(od, ignore_errors=True)
            s += 1
        log("search: %d extra harness runs, io failures %d" % (searched, len(io_fails)))

    # ---------------- 5. classify
    known = [k for k in load_known() if k["property"] == prop and k.get("status") == "known"]
    known_sigs = {k["sig"]: k for k in known}
    new_io = [f for f in io_fails if f["sig"] not in known_sigs]
    seen_known = {}
    for f in io_fails:
        if f["sig"] in known_sigs:
            seen_known.setdefault(f["sig"], f)
    lines = []
    exit_code = 0
    for sig, f in seen_known.items():
        lines.append("KNOWN-FINDING: property=%s %s [%s] e.g. %s" % (prop, known_sigs[sig]["what"], sig, f["input"][:200]))
    violations = 0
    if new_io:
        bysig = {}
        for f in new_io:
            bysig.setdefault(f["sig"], f)
        for sig, f in bysig.items():
            rp = write_replay(prop, {"property": prop, "kind": "impl-counterexample", "signature": sig, "seed": a.seed,
                                     "tier": tier, "op": f["input"], "ops": f.get("ops"), "observed": f["detail"],
                                     "stream": f.get("stream"),
                                     "proof_broken": proof_broken[:5], "correspondence_broken": corr_broken[:5]})
            lines.append("VIOLATION property=%s replay=%s" % (prop, rp))
            violations += 1
        exit_code = 1
    elif proof_broken or corr_broken:
        # known correspondence gaps? none are tolerated: report, naming what no longer checks
        kind = "proof-broken" if proof_broken else "correspondence-broken"
        rp = write_replay(prop, {"property": prop, "kind": kind, "seed": a.seed, "tier": tier,
                                 "no_longer_checks": [p["what"] for p in proof_broken] +
                                                     ["correspondence stream %s line %d" % (c["stream"], c["line"]) for c in corr_broken[:5]],
                                 "proof_broken": proof_broken[:10], "correspondence_broken": corr_broken[:10],
                                 "ops": [c["op"] for c in corr_broken[:10] if c["line"]],
                                 "searched_extra_runs": searched})
        lines.append("VIOLATION property=%s replay=%s no-failing-input-found" % (prop, rp))
        violations += 1
        exit_code = 1
    if infra:
        for i in infra:
            print("CHECK-INFRASTRUCTURE-ERROR: " + i.replace("\n", " | ")[:1000])
        exit_code = exit_code or 3

    # ---------------- 6. evidence
    evals = sum(int(s.get("evaluations", 0)) for s in stats_all)
    distinct = sum(int(s.get("distinct_nontrivial", 0)) for s in stats_all)
    samples = []
    for s in stats_all:
        samples += (s.get("samples") or [])[:6]
    dist = {}
    for s in stats_all:
        for k, v in (s.get("distribution") or {}).items():
            dist[k] = dist.get(k, 0) + v
    extra_keys = {}
    for s in stats_all:
        for k, v in s.items():
            if k not in ("evaluations", "distinct_nontrivial", "samples", "distribution", "rule", "seed", "tier", "stream", "io_failures"):
                extra_keys[k] = v
    ev = {
        "property_id": prop, "tier": tier, "seed": a.seed, "level": cfg.get("level", "proof"),
        "coverage": {
            "obligations": max(n_oblig, 1) if obligations or proof_broken else 0,
            "discharged": n_disch,
            "checker_cmd": "cd /verif/lean && lake build " + " ".join(modules) + " && lake env lean <audit: #audit_module on each>" +
                           (" && lake env leanchecker <Props/Bridge modules>" if tier == "thorough" else ""),
            "trusted_base": cfg.get("trusted_base", []) + [
                "Lean 4.33.0 kernel; axioms allowed: propext, Classical.choice, Quot.sound (audited per theorem on every run)",
                "tools/extract (Go AST -> Lean translator) and GoSem.lean (Go integer semantics) for the regenerated definitions",
                "the Go harness + line protocol + compiled Lean driver svdrv for the correspondence check"],
            "theorems": [{"name": o["theorem"], "axioms": o["axioms"]} for o in obligations],
            "generated_definitions": n_gen,
            "evaluations": evals, "distinct_nontrivial": distinct,
            "rule": "; ".join(sorted({s.get("rule", "") for s in stats_all if s.get("rule")})),
            "samples": samples[:12] or ["(no harness run)"],
            "correspondence_lines_compared": total_lines,
            "correspondence_differences": len(corr_broken),
            "trace_differences_not_reproduced_on_replay": unconfirmed,
            "io_oracle_failures": len(io_fails),
            "traces_validated_against_impl": sum(int(s.get("traces_validated", 0)) for s in stats_all),
            "input_distribution": dist,
            "streams": [s.get("stream") for s in stats_all],
            "search_extra_runs": searched,
            "proof_broken": proof_broken[:20],
            "known_findings_seen": sorted(seen_known.keys()),
            "exhaustive": False,
        },
        "assumptions": cfg.get("assumptions", []),
        "wall_s": round(time.time() - t0, 2),
        "violations": violations,
    }
    ev["coverage"].update(extra_keys)
    os.makedirs(os.path.join(VERIF, "evidence"), exist_ok=True)
    json.dump(ev, open(os.path.join(VERIF, "evidence", prop + ".json"), "w"), indent=1)
    open(os.path.join(BUILD, "last_%s.log" % prop), "w").write("\n".join(logs) + "\n" + harness_out)
    for l in lines:
        print(l)
    print("check %s tier=%s seed=%d: obligations %d/%d discharged, %d correspondence lines (%d differences), %d cases, %d oracle failures, %.1fs -> %s" % (
        prop, tier, a.seed, n_disch, ev["coverage"]["obligations"], total_lines, len(corr_broken), evals, len(io_fails),
        time.time() - t0, "OK" if exit_code == 0 else "FAIL"))
    return exit_code


if __name__ == "__main__":
    sys.exit(main())
