_PRIMS_SAFE = ["getInt8", "getInt16", "getInt32", "getInt64", "getUVarint", "getVarint", "getArrayLength", "getBool",
               "getEmptyTaggedFieldArray", "getRawBytes", "getSubset", "getBytes", "getVarintBytes", "getCompactBytes",
               "getStringLength", "getString", "getNullableString", "getCompactArrayLength", "getInt32Array", "getInt64Array",
               "peek", "peekInt8", "pushLength", "pushVarintLength", "pushCrc", "pop", "varintCount",
               "getCompactString_checked", "getCompactNullableString_checked", "getCompactInt32Array_checked",
               "getStringArray_checked", "getArrayLength_checked", "getCompactArrayLength_checked", "varintCount_checked"]
_PRIMS_UNSAFE = ["getArrayLength_pinned", "getCompactArrayLength_pinned", "getCompactString_pinned",
                 "getCompactNullableString_pinned", "getCompactInt32Array_pinned", "getStringArray_pinned",
                 "varintCount_pinned", "peek_negative"]
_BRIDGE = ["getInt8_eq", "getInt16_eq", "getInt32_eq", "getInt64_eq", "arrayLengthTail_eq", "compactArrayLengthTail_eq",
           "getBoolTail_eq", "stringLengthTail_eq", "getRawBytes_eq", "peek_guard_eq", "peekInt8_guard_eq",
           "lengthFieldDecodeTail_eq", "lengthFieldCheck_eq", "varintLengthFieldCheck_eq", "decodeTrailing_eq",
           "versionedDecodeTrailing_eq", "headerLengthCheck_eq", "getHeaderLength_eq",
           "compactArrayLengthModel_is_model", "compactStringTail_eq", "compactNullableStringTail_eq"]

CFG = dict(
    lean_modules=["SaramaVerif.Model.Decoder", "SaramaVerif.Model.DecoderFmt", "SaramaVerif.Lemmas.C10",
                  "SaramaVerif.Props.C10", "SaramaVerif.Bridge.C10"],
    lean_support=["SaramaVerif.GoSem", "SaramaVerif.Gen.C10", "SaramaVerif.Driver.C10"],
    model="C10",
    required_theorems=["Props.C10.prim_safe_" + p for p in _PRIMS_SAFE] +
                      ["Props.C10.prim_unsafe_" + p for p in _PRIMS_UNSAFE] +
                      ["Props.C10.dec_total_safe", "Props.C10.dec_total_safe_spelled", "Props.C10.length_mismatch_is_error",
                       "Props.C10.varint_length_mismatch_is_error", "Props.C10.crc_mismatch_is_error", "Props.C10.pop_crc_ok_iff",
                       "Props.C10.trailing_bytes_is_error", "Props.C10.response_size_capped", "Props.C10.decodeHeader_safe",
                       "Props.C10.loop_progress", "Props.C10.loop_never_hangs"] +
                      ["Bridge.C10." + b for b in _BRIDGE],
    # n = budget of decode operations per harness run (the positional core mutations always run in full)
    n={"quick": 1000000, "thorough": 8000000, "search": 300000},
    thorough_seeds=3,
    timeout={"quick": 600, "thorough": 3000},
    level="proof",
    assumptions=[
        "linux/amd64: `int` is 64 bit, runtime.maxAlloc = 2^48 (make panics above it, otherwise attempts the allocation)",
        "buffers handed to a decoder have cap == len (true for the buffer responseReceiver allocates; inside getSubset views a "
        "slice expression beyond len but within cap reads the parent buffer instead of panicking – not modelled)",
        "the model counts data-proportional allocations (make, string copies); constant-size objects per decoded element are not counted, "
        "the harness measures them (allocated bytes <= 1 MiB + 64 B per input byte, +64 MiB where decompress() is reachable)",
        "hash/crc32 is a parameter `crcf` of the theorems (the driver's bitwise CRC-32 is compared with Go's on every run)",
        "decompressors (gzip, snappy, lz4, zstd) are outside the model: observed only, through the entry points that reach them",
        "peek/peekInt8 are called with non-negative constants only (hypothesis of prim_safe_peek; true of every call site in /repo)",
    ],
    trusted_base=[],
)
CFG["manifest"] = dict(
    text="Proof: Lean model of every primitive getter of realDecoder, of the length/CRC push-decoders, of decode()'s whole-buffer check and of "
         "responseHeader.decode, written from the source including its missing checks (outcomes ok / err / panic / allocation). "
         "Theorems for ALL byte strings and offsets: prim_safe_X for every getter that is safe as pinned (never a panic, offset stays inside the "
         "buffer, allocation linear); for the unsafe ones (getArrayLength < -1, getCompactArrayLength, getCompactString, "
         "getCompactNullableString, getCompactInt32Array, getStringArray, the record header count) the NEGATION with a concrete byte string plus the "
         "safety theorem of the repaired variant; dec_total_safe: every decoder built from safe primitives, guarded counted loops, pushed "
         "length/CRC fields, sub-decoders and remaining()-loops is total, never hangs and allocates <= cost(f) bytes per input byte; "
         "length_mismatch_is_error, crc_mismatch_is_error, trailing_bytes_is_error, response_size_capped, loop progress. "
         "Tie: 21 bridge obligations re-translate the bounds logic of the getters / checks from /repo on every run; the complete getters, "
         "push/pop, the header, CRC-32 and five decode methods written in the combinator language (Record, member metadata/assignment, sticky "
         "user data V0/V1, MetadataResponse v0) run differentially against the compiled model; every response type x version, the header, "
         "RecordBatch/Records/Record/MessageSet/Message, group member data and sticky user data are attacked in capped subprocesses with "
         "truncation at every position, every 4/2/1-byte position set to -1/-2/0/huge/remainder+1, oversized varints, bit flips and random bytes "
         "(oracle: never panic / oversize allocation / hang; trailing bytes rejected; a mutated batch never yields different records).",
    note="The tree as pinned violated the property (known_findings.d/C10.json: one entry per entry point x outcome x panic site, all repaired by "
         "fix commits in /repo; the model keeps both variants and the harness observes which one the tree under test has). "
         "Response decoders other than the five modelled formats are covered by the generic theorem only through the hypothesis `Good` "
         "(their loop heads are observed by the harness, not extracted). Decompression libraries are observed only. "
         "Trusted: Lean kernel; translator tools/extract + GoSem.lean; harness, worker protocol and line protocol.",
    technique="Lean 4 proof (induction over a decoder combinator language, omega, decide for counter-examples) + regenerated bridge "
              "obligations + differential correspondence + mutation campaign in memory-capped subprocesses",
)
