import os, sys


def _race_hook(prop, outdir, name, corr_broken, io_fails, log):
    """Once per check run (after the first generated stream): the concurrent readers + background refresh cases, in a
    process of their own, built with -race (CGO). A reported data race, a runtime crash (e.g. concurrent map
    access) or an oracle failure there is an IO failure of the property. Without a -race toolchain the plain
    binary runs the same cases."""
    if not name.startswith("gen:") or getattr(_race_hook, "done", False):
        return
    _race_hook.done = True
    V = sys.modules["__main__"]
    mode = "race"
    try:
        rc, out, binp = V.build_harness(prop, CFG, log, race=True)
    except Exception as e:
        rc, out, binp = 1, str(e), None
    if rc != 0:
        log("race build not possible (rc=%d): %s" % (rc, out[-300:].replace("\n", " | ")))
        mode = "norace"
        binp = os.path.join(V.BUILD, "svh-" + prop.lower())
    od = os.path.join(os.path.dirname(outdir), "conc")
    thorough = "thorough" in sys.argv
    rc, out, dt = V.run_harness(binp, od, 7, "thorough" if thorough else "quick",
                                n=CFG["n"]["conc_thorough" if thorough else "conc_quick"], extra=["-conconly"], timeout=900)
    log("concurrent run (%s) rc=%d %.1fs" % (mode, rc, dt))
    inp = "note conc (%s build, -conconly, seed 7)" % mode
    if "DATA RACE" in out:
        i = out.index("DATA RACE")
        io_fails.append({"sig": "data-race", "input": inp, "detail": out[max(0, i - 20):i + 1800], "stream": "conc"})
    elif rc != 0:
        i = out.find("fatal error")
        io_fails.append({"sig": "concurrent-run-crashed", "input": inp,
                         "detail": out[i:i + 1200] if i >= 0 else out[-1200:], "stream": "conc"})
    io_fails += [dict(x, stream="conc") for x in V.read_io(od)]


CFG = dict(
    lean_modules=["SaramaVerif.Model.Metadata", "SaramaVerif.Lemmas.C15Keyed", "SaramaVerif.Lemmas.C15Update",
                  "SaramaVerif.Lemmas.C15Iter", "SaramaVerif.Props.C15", "SaramaVerif.Bridge.C15"],
    lean_support=["SaramaVerif.GoSem", "SaramaVerif.Gen.C15", "SaramaVerif.Driver.C15"],
    model="C15",
    required_theorems=[
        "Props.C15.cachedMetadata_update", "Props.C15.cachedPartitions_update",
        "Props.C15.partitions_after_refresh", "Props.C15.writable_spec", "Props.C15.writable_iff_leader_available",
        "Props.C15.metadata_after_refresh", "Props.C15.leader_spec", "Props.C15.leader_never_stale",
        "Props.C15.replicas_isr_offline_spec", "Props.C15.topic_error_classes", "Props.C15.retry_and_error_spec",
        "Props.C15.brokers_reconciled", "Props.C15.full_refresh_resets", "Props.C15.partial_refresh_keeps_others",
        "Props.C15.derived_lists_consistent", "Props.C15.readers_see_consistent_lists", "Props.C15.history_view",
        "Props.C15.api_hit_reads_cache", "Props.C15.api_miss_refreshes_once",
        "Props.C15.refresh_succeeds_if_any_answers", "Props.C15.refresh_terminates",
        "Props.C15.refresh_with_live_seed", "Props.C15.dead_seeds_resurrected",
        "Props.C15.new_client_created_if_seed_answers",
        "Bridge.C15.consts_eq", "Bridge.C15.partition_sets_eq", "Bridge.C15.topicErrCases_eq",
        "Bridge.C15.topicClass_by_cases", "Bridge.C15.cachedLeader_topic_absent",
        "Bridge.C15.cachedLeader_partition_absent", "Bridge.C15.cachedLeader_found", "Bridge.C15.replicasTail_eq",
        "Bridge.C15.partitionsTail_eq", "Bridge.C15.writableTail_eq", "Bridge.C15.reconcileBroker_eq",
        "Bridge.C15.partitionRetry_eq", "Bridge.C15.deregisterBroker_eq",
        "Bridge.C15.lock_statements_present", "Bridge.C15.topicSwitch_eq", "Bridge.C15.applyTopic_by_switch",
        "Bridge.C15.kerrorVerdict_eq", "Bridge.C15.kerror_fatal_iff", "Bridge.C15.answeredVerdict_eq"],
    n={"quick": 15000, "thorough": 50000, "search": 6000, "conc_quick": 2000, "conc_thorough": 6000},
    thorough_seeds=4,
    timeout={"quick": 600, "thorough": 1700},
    level="proof",
    custom=_race_hook,
    assumptions=[
        "topic names and broker addresses are opaque identifiers (only equality matters)",
        "one updateMetadata call is one atomic step: it runs under client.lock.Lock, the getters under RLock "
        "(checked by the concurrent-readers run of the harness, built with -race)",
        "what a candidate broker does with a MetadataRequest is a parameter (answer / fail / fatal error), in every "
        "order of trying the known brokers; time is not modelled (Metadata.Timeout = 0, back-off sleeps ignored)",
        "'writable = leader available' needs responses that mark a partition ErrLeaderNotAvailable exactly when its "
        "leader is not in the broker list they carry (Kafka brokers do); the code filters on the error code only",
        "the client is not closed while it is used; coordinators and the controller lookup are outside this property",
        "a candidate 'answers' when the request sent to it in this attempt is answered: a request over a connection "
        "that died since an earlier attempt counts as failing mid-request even if the address would accept a new "
        "connection (sarama does not redial within the attempt; a known broker is then dropped, a seed set aside)",
    ],
    trusted_base=[],
)
CFG["manifest"] = dict(
    text="Proof: Lean theorems about an executable model of the client's metadata cache, for EVERY sequence of metadata "
         "responses and every prior cache content: after a refresh the cached partition list of a topic the response "
         "mentions is strictly ascending with exactly the response's partition ids (last entry wins), the writable list "
         "exactly those not marked ErrLeaderNotAvailable (= those with an available leader for faithful responses), "
         "Leader/Replicas/InSyncReplicas/OfflineReplicas return the newest entry (a leader id outside the newest broker "
         "list gives ErrLeaderNotAvailable; a returned broker is always an entry of the newest broker list), topic error "
         "classes forget/keep/retry as the switch says, the broker map equals the newest broker list, a full refresh "
         "forgets unmentioned topics, and in every state reachable by any operation sequence the cached lists are the "
         "function of the metadata map (never a mixture). Candidate iteration: for every reachability assignment and "
         "every order of trying known brokers, a pass reaches an answering candidate if one exists, asks no more than "
         "the number of candidates, ends ErrOutOfBrokers only when all failed, then resurrects every dead seed; with a "
         "seed that keeps answering the bounded retries never report ErrOutOfBrokers; NewClient is created when a seed "
         "answers cleanly. Tie: fragments of cachedLeader, the getters' verdict tails, updateBroker/registerBroker's "
         "test, deregisterBroker, the leaderless-partition retry test, the case table of `switch topic.Err` and the "
         "error constants are re-translated from /repo on every run and proved equal to the model; the loops, the "
         "clause bodies of the topic switch, tryRefreshMetadata and NewClient are tied by differential execution of "
         "the real code (updateMetadata, cached and public getters with a scripted refresh through an in-package "
         "MockBroker, RefreshMetadata/NewClient over a simulated network with refused / mid-request-failing / closed "
         "/ answering addresses) against the compiled model, plus the property oracle against a reference view folded "
         "from the responses, plus (in a process of its own, built with -race) concurrent readers against a refreshing "
         "writer where every read must equal the view before or after a refresh in flight.",
    note="Trusted: Lean kernel; translator tools/extract + GoSem.lean; harness, overlay and line protocol. Modelled not "
         "verified: atomicity of updateMetadata (presence of the lock/unlock statements is a regenerated fact, mutual "
         "exclusion is observed under -race, not proved), the fatal error "
         "classes of tryRefreshMetadata (PacketEncodingError/SASL/topic authorization: in the model, not exercised; the "
         "translator cannot enter the type switch), deadlines/back-off, Close, coordinators.",
    technique="Lean 4 proof (induction over response lists and operation sequences, invariants) + regenerated bridge "
              "obligations + differential correspondence + race-detector run",
)
