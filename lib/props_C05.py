CFG = dict(
    lean_modules=["SaramaVerif.Model.IdemBroker", "SaramaVerif.Model.Producer", "SaramaVerif.Props.C01", "SaramaVerif.Props.C05", "SaramaVerif.Props.C05stamps",
                  "SaramaVerif.Model.BrokerProd", "SaramaVerif.Model.BrokerProdIdem", "SaramaVerif.Props.C05bp"],
    lean_support=["SaramaVerif.Driver.ProducerTrace"],
    confirm_scenario_diffs=True,
    model="C05",
    overlay=["sim", "c05"],
    required_theorems=["Props.C05stamps.stamps_never_repeat", "Props.C05.no_duplicate_append_of_wire_stamp_function", "Props.C05stamps.bump_only_for_failed_sequenced_message", "Props.C05stamps.stamps_dense", "Props.C05stamps.step_sinv", "Props.C05.arrive_inv", "Props.C05.arriveAll_inv", "Props.C05.no_two_records_share_stamp",
                       "Props.C05.no_duplicate_append", "Props.C05.resend_is_deduplicated",
                       "Props.C05.sequence_assigned_once", "Props.C05.sequence_only_on_first_forward",
                       "Props.C05bp.bpI_at_most_one_set_in_flight", "Props.C05bp.bpI_conservation", "Props.C05bp.bpI_only_data_buffered",
                       "Props.C05bp.bpI_quiet_while_refused", "Props.C05bp.bpI_empty_set_needs_stale", "Props.C05bp.stepIE_bal",
                       "Props.C05bp.stepIE_inv", "Props.C05bp.stepIE_quiet"],
    n={"quick": 700, "thorough": 12000, "search": 1500},
    thorough_seeds=3,
    timeout={"quick": 600, "thorough": 3000},
    level="proof",
    assumptions=[
        "brokers enforce Kafka's producer-id/epoch/sequence rules as modelled in Model.IdemBroker (one producer id per partition history); the simulated brokers of the harness are compared with that model batch by batch",
        "no_duplicate_append carries the producer-side hypothesis StampFunctional (a message always travels under one (epoch, sequence)); the pinned producer violates it after an epoch bump - known finding, with a kernel-checked counter-history",
    ],
    trusted_base=["hooks in /repo (build tag verif)", "simulated cluster harness/overlay/sim_cluster.go", "overlay c05_txn.go (calls the real transactionManager's getAndIncrementSequenceNumber / bumpEpoch)"],
    manifest=dict(
        text="Proof, broker side: for EVERY arrival history (any resends, reorderings, epochs) a leader enforcing Kafka's idempotence rules keeps the (epoch, sequence) stamps of its log strictly increasing, "
             "so no stamp is appended twice and a cached resend is answered with the original offset; hence no message is appended twice whenever the producer always sends a message under one stamp. "
             "Proof, producer side: in every accepted event sequence of the producer model a message is stamped at most once, only on its first forward. Tie: every batch the simulated brokers saw is replayed "
             "through the Lean broker model (verdict + base offset compared); hook traces are validated against the producer model; the oracle on partition logs and the broker-side batch log (no payload twice, "
             "successes in the log exactly once, consecutive first sends, identical resends) supplies concrete replays. The pinned idempotent producer breaks the producer-side obligation on several retry paths: "
             "those history shapes are listed as known findings.",
        note="Trusted: Lean kernel, hooks, sim cluster, harness. Partial by design: `no_duplicate_append` is conditional on StampFunctional, which the pinned tree does not satisfy after an epoch bump.",
        technique="Lean 4 invariant proof (broker rules, producer stamping) + differential replay of broker decisions + trace validation + end-to-end oracle",
    ),
)
