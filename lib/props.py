"""Per-property configuration of the checks (which Lean modules, which harness, budgets)."""

def P(prop, model=True, **kw):
    d = dict(
        lean_modules=["SaramaVerif.Props." + prop],
        model=prop if model else None,
        n={"quick": None, "thorough": None, "search": None},
    )
    d.update(kw)
    return d

PROPS = {
    "C17": P("C17",
        lean_modules=["SaramaVerif.Model.Partitioner", "SaramaVerif.Props.C17", ],
        lean_support=["SaramaVerif.GoSem", "SaramaVerif.Gen.C17"],
        required_theorems=["Props.C17.hash_range", "Props.C17.hash_reference_eq_java", "Props.C17.hash_consistent",
                           "Props.C17.rr_run_range", "Props.C17.rr_cycle", "Props.C17.manual_identity",
                           "Props.C17.partition_message_spec", "Props.C17.failed_partitioning_sends_nothing",
                           "Props.C17.custom_fallback_used"],
        assumptions=["hash.Hash32 implementations are arbitrary functions of the key bytes (parameter h)",
                     "math/rand draw of the random partitioner is an arbitrary value (parameter r); its range is checked on the implementation only",
                     "Client.Partitions/WritablePartitions answers are parameters of the routing model (C15 ties them to metadata)"],
    ),
}
