CFG = dict(
    # Lean modules whose theorems are this property's proof obligations (built + audited on every run).
    lean_modules=["SaramaVerif.Model.Mocks", "SaramaVerif.Props.C20", "SaramaVerif.Bridge.C20"],
    lean_support=["SaramaVerif.GoSem", "SaramaVerif.Gen.C20", "SaramaVerif.Model.Partitioner", "SaramaVerif.Driver.C20"],
    model="C20",
    # package mocks is exported: no overlay files (cfg key kept explicit: nothing is injected into /repo)
    overlay=["c20"],
    required_theorems=[
        "Props.C20.setPartitionsMap_other", "Props.C20.setPartitionsMap_snapshot",
        "Props.C20.async_mock_ith_outcome", "Props.C20.async_input_without_expectation",
        "Props.C20.async_pinned_eq_fixed_of_checkers_pass", "Props.C20.async_mock_ith_outcome_partial",
        "Props.C20.exactly_one_outcome", "Props.C20.at_most_one_outcome", "Props.C20.exactly_one_outcome_partial",
        "Props.C20.async_reporter_calls_spec", "Props.C20.expectedReports_nil_iff",
        "Props.C20.sync_mock_ith_outcome", "Props.C20.sync_mock_ith_outcome_pinned", "Props.C20.sync_mock_ith_outcome_partial",
        "Props.C20.sync_input_without_expectation", "Props.C20.sync_reporter_calls_spec",
        "Props.C20.sync_batch_all_or_nothing", "Props.C20.sync_batch_eq_singles",
        "Props.C20.consumer_mock_offsets", "Props.C20.yield_offset_spec", "Props.C20.consumer_errors_fifo",
        "Props.C20.pc_reporter_calls_spec", "Props.C20.cStep_pcs", "Props.C20.consumer_queue_invariant",
        "Props.C20.consumer_reporter_calls_spec",
        "Bridge.C20.sendMessage_eq", "Bridge.C20.sendMessage_no_expectation", "Bridge.C20.syncClose_eq",
        "Bridge.C20.consumePartition_registered", "Bridge.C20.consumePartition_unregistered", "Bridge.C20.hwmOffset_eq"],
    n={"quick": 30000, "thorough": 400000, "search": 30000},
    thorough_seeds=4,
    level="proof",
    assumptions=[
        "partitioners are arbitrary deterministic state machines (one instance per topic); check functions are arbitrary functions of "
        "the message and the partition stored in it; error values are opaque codes (parameters of the model, not axioms)",
        "the async mock's goroutine handles one input at a time under mp.l: a run with concurrent senders is a sequential run over the "
        "inputs in the order the goroutine received them (the theorems quantify over every such order; the harness observes the order "
        "through the partitioner calls)",
        "lastOffset / highWaterMarkOffset are unbounded integers in the model (no int64 wrap within 2^63 messages)",
        "YieldMessage/YieldError on a full channel never return: modelled as `block`, the harness does not make such a call",
    ],
    trusted_base=[],
)
CFG["manifest"] = dict(
    text="Proof: Lean theorems over a model of the three mocks (state machines mirroring mocks/*.go) for every script, every input sequence "
         "(= every processing order of concurrent senders), every partitioner state machine, checker function and topic configuration: "
         "the i-th handled input meets the i-th expectation and gets the scripted error or a success with the topic partitioner's choice for "
         "the configured partition count and offsets 1,2,... over the successes; exactly one outcome per input with an expectation, none beyond "
         "the script; SendMessages is all-or-nothing on the expectation count and otherwise equals the single calls up to the first failure; "
         "a SetPartitions call enters exactly the counts the map held at call time into the mock's OWN table (setPartitionsMap_snapshot/_other; the model has "
         "no way for a later change of the caller's map or another mock's configuration to reach it); "
         "the consumer mock delivers offsets 1,2,3,... per partition in order, errors FIFO, HighWaterMarkOffset = yields + 1; Errorf is called "
         "exactly for: input without expectation, insufficient expectations, leftovers at Close, failing checker, partitioner error, "
         "ConsumePartition of an unregistered partition or with an unexpected offset, Close of a never-started partition consumer, undrained "
         "channels when demanded, Topics/Partitions without metadata. Full strength for the documented behaviour; for the pinned tree "
         "(variant flags) `_partial` theorems with the exact extra hypothesis plus `decide` counter-examples: F11a a failing checker yields the "
         "checker error AND the scripted outcome (two outcomes for one message, an offset used up); F11b SyncProducer.SendMessage returns "
         "partition 0 instead of the chosen one. Both are reported by the oracle as known findings with replay.",
    note="Tie: bridge obligations re-translated from /repo on every run for the loop-free code (whole SyncProducer.SendMessage incl. its three "
         "Errorf call sites - variant chosen by the proof, SyncProducer.Close leftover check, Consumer.ConsumePartition decision table, "
         "HighWaterMarkOffset); everything with loops/goroutines/channels (async goroutine, SendMessages, PartitionConsumer Yield*/Close/"
         "AsyncClose, Consumer.Close/HighWaterMarks/Topics/Partitions, TopicConfig) by differential execution of the real mocks against the "
         "compiled model (random scripts x inputs x partitioners x configurations, concurrent senders, every close order; `multi` cases: 2-4 async/sync mocks built "
         "from one Config and configured from shared map objects that the test afterwards mutates, replaces or hands to another mock, single mocks "
         "re-configured, interleaved with sends - the oracle checks that the partitioner is called with the count that mock was given; "
         "Consumer.HighWaterMarks answers are scribbled over and asked again; oracle-only `cyield` family: 2-8 goroutines yield concurrently on one "
         "partition consumer with a small channel buffer while a reader checks consecutive offsets, per-yielder order and the high-water mark) and by the property "
         "oracle. Trusted: Lean kernel; translator tools/extract + GoSem.lean; harness/line protocol. Modelled not verified: sarama's own "
         "partitioners (C17 model reused), FNV-1a re-implemented in the driver. Observed only: HighWaterMarkOffset also advances for a "
         "YieldMessage that panics on a closed partition consumer; message offsets always start at 1 whatever start offset was registered.",
    technique="Lean 4 proof (induction over runs, invariants) + regenerated bridge obligations + differential correspondence with schedule observation",
)
