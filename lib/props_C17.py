CFG = dict(
    # Lean modules whose theorems are this property's proof obligations (built + audited on every run).
    # Modules with ".Bridge." in the name depend on the regenerated Gen/<Cxx>.lean and are built separately.
    lean_modules=["SaramaVerif.Model.Partitioner", "SaramaVerif.Props.C17", "SaramaVerif.Bridge.C17"],
    # further modules scanned for forbidden constructs (sorry, native_decide, ...)
    lean_support=["SaramaVerif.GoSem", "SaramaVerif.Gen.C17"],
    # name of the model driver (svdrv_<cxx> is built from SaramaVerif/Driver/<Cxx>.lean); None = no line-protocol model
    model="C17",
    overlay=["sim", "c17"],
    required_theorems=["Props.C17.hash_range", "Props.C17.hash_reference_eq_java", "Props.C17.hash_consistent", "Props.C17.hash_key_range", "Props.C17.hash_key_consistent",
                       "Props.C17.rr_run_range", "Props.C17.rr_cycle", "Props.C17.rr_covers_all", "Props.C17.rr_window_injective", "Props.C17.rr_periodic", "Props.C17.rr_window_count", "Props.C17.rr_fair", "Props.C17.manual_identity",
                       "Props.C17.partition_message_spec", "Props.C17.failed_partitioning_sends_nothing",
                       "Props.C17.custom_fallback_used", "Props.C17.hash_partition_keyed", "Props.C17.hash_partition_keyless", "Props.C17.keyed_hash_message_routed",
                       "Bridge.C17.hashTail_eq", "Bridge.C17.rrPartition_eq", "Bridge.C17.routeCheck_ok", "Bridge.C17.routeCheck_err"],
    n={"quick": 20000, "thorough": 2000000, "search": 200000},
    thorough_seeds=4,
    level="proof",
    assumptions=["hash.Hash32 implementations are arbitrary functions of the key bytes (parameter h)",
                 "math/rand draw of the random partitioner is an arbitrary value (parameter r); its range is checked on the implementation only",
                 "Client.Partitions/WritablePartitions answers are parameters of the routing model (C15 ties them to metadata)"],
    trusted_base=[],
)
CFG["manifest"] = dict(
    text="Proof: Lean theorems (for every 32-bit hash incl. 0x80000000, every partition count, every call sequence) that hash/reference-hash "
         "choices are in range and a function of the hash, the reference variant equals the Java formula, round-robin is in range, cyclic and returns every partition exactly once in any window of n calls, "
         "and the routing decision table of partitionMessage (sent only to partitions[choice] of the offered list, otherwise a specific error and nothing sent). "
         "The arithmetic tail of hashPartitioner.Partition, roundRobinPartitioner.Partition and the checks of partitionMessage are re-translated "
         "from /repo on every run and proved equal to the model (bridge obligations); the constructors/options and the whole call are tied by "
         "differential execution against the compiled model; end-to-end scenarios (real Client + AsyncProducer against the simulated cluster, leadership "
         "changing between the client's start and a per-topic refresh) answer the same routing lines with the partition the producer reported.",
    note="Trusted: Lean kernel; translator tools/extract + GoSem.lean; harness/line protocol. Modelled not verified: hash.Hash32 and math/rand as parameters, "
         "the client's partition lists as parameters, breaker.Run as a transparent call.",
    technique="Lean 4 proof (omega/induction) + regenerated bridge obligations + differential correspondence",
)
