import os, sys


def _e2e_hook(prop, outdir, name, corr_broken, io_fails, log):
    """Once per check run (and on a replay that names such a scenario): the end-to-end stream.  A real consumer-group
    leader on the simulated cluster; the subscribed topic gains partitions between two Consume calls; every plan synced
    afterwards must hold every partition of the topic (harness/cmd/c08e2e, grp.RunGrowth)."""
    replay = None
    if name == "replay":
        rp = [a for a in sys.argv if a.endswith(".ops") or a.endswith(".json")]
        V = sys.modules["__main__"]
        cand = os.path.join(V.BUILD, "replay_%s.ops" % prop)
        replay = cand if os.path.exists(cand) else (rp[0] if rp else None)
        if not replay or "e2e gs" not in open(replay).read():
            return
    elif not name.startswith("gen:") or getattr(_e2e_hook, "done", False):
        return
    _e2e_hook.done = True
    V = sys.modules["__main__"]
    try:
        rc, out, binp = V.build_harness("C08E2E", {"overlay": ["sim"]}, log)
    except Exception as e:
        rc, out, binp = 1, str(e), None
    if rc != 0:
        corr_broken.append({"stream": "e2e-build", "line": 0, "op": "go build -tags verif ./cmd/c08e2e",
                            "impl": out[-1500:], "model": ""})
        return
    od = os.path.join(os.path.dirname(outdir), "e2e")
    thorough = "thorough" in sys.argv or os.environ.get("VERIF_TIER") == "thorough"
    seed = int(name.split("=")[1]) if name.startswith("gen:seed=") else 1
    rc, out, dt = V.run_harness(binp, od, seed, "thorough" if thorough else "quick", replay=replay, timeout=900)
    log("e2e run rc=%d %.1fs" % (rc, dt))
    if rc != 0:
        corr_broken.append({"stream": "e2e", "line": 0, "op": "harness run (cmd/c08e2e)", "impl": "exit %d: %s" % (rc, out[-1500:]), "model": ""})
        return
    st = V.read_stats(od)
    st["stream"] = "e2e"
    CFG.setdefault("_extra_stats", []).append(st)
    io_fails += [dict(x, stream="e2e") for x in V.read_io(od)]


CFG = dict(
    # Lean modules whose theorems are this property's proof obligations (built + audited on every run).
    lean_modules=["SaramaVerif.Model.BalancePlan", "SaramaVerif.Model.BalanceRange", "SaramaVerif.Model.BalanceRoundRobin",
                  "SaramaVerif.Model.BalanceStickyPieces", "SaramaVerif.Model.BalanceSticky",
                  "SaramaVerif.Lemmas.C08Assoc", "SaramaVerif.Lemmas.C08Range", "SaramaVerif.Lemmas.C08RR",
                  "SaramaVerif.Lemmas.C08Valid", "SaramaVerif.Lemmas.C08StickyAL", "SaramaVerif.Lemmas.C08Sticky",
                  "SaramaVerif.Lemmas.C08StickyEnv", "SaramaVerif.Lemmas.C08StickyOps", "SaramaVerif.Lemmas.C08StickyAssign",
                  "SaramaVerif.Lemmas.C08StickyFinal",
                  "SaramaVerif.Props.C08", "SaramaVerif.Bridge.C08"],
    lean_support=["SaramaVerif.GoSem", "SaramaVerif.Gen.C08", "SaramaVerif.Model.BalanceLine"],
    model="C08",
    custom=_e2e_hook,
    required_theorems=["Props.C08.range_partition", "Props.C08.range_valid",
                       "Props.C08.rr_find_terminates", "Props.C08.rr_diverges_without_subscriber",
                       "Props.C08.rr_valid", "Props.C08.rr_plan_valid", "Props.C08.balance_topics_have_subscribers",
                       "Props.C08.sticky_valid", "Props.C08.sticky_invariant", "Props.C08.sticky_valid_partial",
                       "Bridge.C08.defaultGeneration_eq", "Bridge.C08.canTopicPartitionParticipate_eq"],
    n={"quick": 20000, "thorough": 1000000, "search": 20000},
    thorough_seeds=1,
    timeout={"quick": 300, "thorough": 1700},
    # the overlay calls unexported sticky functions: full build with tag c08pieces, fallback = Plan-level harness only
    build_tags=["c08pieces"],
    fallback_tags=[],
    level="proof",
    assumptions=[
        "range: the IEEE-754 evaluation floor(i*(n/m)+0.5) is a parameter r constrained by RangeBoundary (r 0 = 0, r m = n, |2*m*r(i)-2*i*n| <= m); "
        "that the Go floats satisfy the relation is checked on every (n,m) the harness runs, not proved",
        "range/round-robin: the hash order of members per topic and the string order of members / topic partitions are arbitrary permutations (theorems hold for every order)",
        "sticky: the Go map iteration orders, the partition order of sortPartitions and the choice inside getTheActualPartitionToBeMoved are an arbitrary accepted operation sequence of the op-level model; "
        "that every run of the Go code is such a sequence is by reading (no trace hooks in /repo); the plans the Go code returns are checked by the validity predicate",
        "sticky: theorems are about plans that are returned (performReassignments need not terminate: known finding sticky-no-return)",
        "member ids distinct, topics distinct, partition ids of a topic distinct (Go maps / cluster metadata)",
        "the path from the group leader's metadata to the strategy's input (consumerGroup.balance) is not modelled: observed end-to-end only "
        "(cmd/c08e2e: one real leader, topic growth between Consume calls, simulated coordinator records the synced plan)",
    ],
    trusted_base=[],
)
CFG["manifest"] = dict(
    text="Proof: Lean theorems, for every group shape, every member/topic/partition order and every size (induction): "
         "range (range_partition/range_valid): for ANY slice bounds satisfying the relational spec of the float rounding the slices partition the "
         "topic's partition list, holders are subscribed group members; round-robin (rr_find_terminates, rr_valid, rr_plan_valid): the cursor loop "
         "terminates within n steps iff the topic has a subscriber, every partition is assigned exactly once to a subscriber; without a subscriber "
         "the loop never exits (rr_diverges_without_subscriber = finding F13); sticky (sticky_valid/sticky_invariant): an op-level model whose guards "
         "are the code's conditions keeps 'every partition with a potential consumer held exactly once, by a member that may hold it, owner map "
         "accurate, parked members hold only non-reassignable partitions' for ANY prepopulated ownership (stale/conflicting/partly deleted user data) "
         "and every accepted operation sequence incl. substituted moves and revert - for the variant with the strengthened previous-owner guard and an "
         "effective revert; for the tree as pinned only sticky_valid_partial (exact extra hypotheses) plus two kernel-checked counter-example runs that "
         "reproduce the plans the real code returns (F12: partition unassigned; revert: fixed assignment lost). "
         "Tie: differential execution of the real Plan against the compiled Lean models on every run: range (core bounds + whole plans), round-robin "
         "(whole plans incl. err/diverges), the pure pieces of sticky (isBalanced, getBalanceScore, sortMemberIDsByPartitionAssignments, "
         "canConsumerParticipateInReassignment, assignPartition, areSubscriptionsIdentical, prepopulateCurrentAssignments, movement bookkeeping) and "
         "the validity predicate itself (Go oracle vs Lean predicate on every Go plan); bridge obligations for the two loop-free fragments the "
         "translator can take. End-to-end stream (harness/cmd/c08e2e): a real ConsumerGroup leader on the simulated cluster whose subscribed topic gains "
         "partitions between two Consume calls - every plan it syncs afterwards must hold every partition of the topic (the caller of the strategies: "
         "consumerGroup.balance / newSession).",
    note="Trusted: Lean kernel; translator + GoSem for the two regenerated definitions; harness/line protocol. Modelled not verified: float rounding of "
         "the range bounds (relational spec, checked per run); correspondence of the sticky op model to performReassignments/balance is by reading "
         "plus observation of final plans (no op trace). Known findings on the pinned tree: F12 (two signatures), round-robin and sticky non-termination.",
    technique="Lean 4 proof (induction, counting invariants) + differential correspondence + property oracle on real plans",
)
