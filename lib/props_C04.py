CFG = dict(
    lean_modules=["SaramaVerif.Model.ProduceSet", "SaramaVerif.Props.C04", "SaramaVerif.Bridge.C04"],
    lean_support=["SaramaVerif.GoSem", "SaramaVerif.Gen.C04"],
    model="C04",
    overlay=["c16", "sim"],   # harness/overlay/c16_produceset.go serves both checks
    required_theorems=[
        "Props.C04.reach_ainv", "Props.C04.msgs_records_aligned", "Props.C04.renumber_length", "Props.C04.renumber_get",
        "Props.C04.reqVersion_ge3_iff", "Props.C04.record_batch_offset_deltas", "Props.C04.wrapper_relative_offsets",
        "Props.C04.wrapper_v0", "Props.C04.msgset_uncompressed", "Props.C04.broker_log_placed",
        "Props.C04.assign_offsets_reported", "Props.C04.success_offset_is_log_position", "Props.C04.handle_block_table",
        "Props.C04.dedup_success_offset", "Props.C04.dedup_success_offset_partial",
        "Bridge.C04.handleSuccessCases_eq", "Bridge.C04.reqVersion_eq", "Bridge.C04.lastOffsetDelta_eq",
        "Bridge.C04.renumber_eq_gen", "Bridge.C04.wrapper_eq", "Bridge.C04.legacy_message_eq",
        "Bridge.C04.assignOffsets_eq_gen", "Bridge.C04.handleBlock_eq_block", "Bridge.C04.handleBlock_eq_missing"],
    n={"quick": 150, "thorough": 1500, "search": 150},
    thorough_seeds=3,
    level="proof",
    assumptions=[
        "scope of this check: produce set / buildRequest / wire content / handleSuccess offset assignment; partition choice is C17, "
        "success events of end-to-end runs under fault scripts (retried and de-duplicated batches through the whole pipeline) belong to the pipeline harness",
        "payload bytes are opaque (a message is identified by id; the harness compares the bytes); Encoder.Length() == len(Encode()) for the user's encoders",
        "timestamps are millisecond values representable as int64 nanoseconds (Go's domain of Time.UnixNano, years 1678..2262); beyond that see known finding",
        "the wall clock used for messages without a timestamp is a parameter (`now`) of every add",
        "broker model: appends the decoded records at consecutive positions from the base offset, using the producer-written relative offsets where the format defines them "
        "(record batch OffsetDelta, format-1 wrapper inner offsets) and arrival order otherwise; compression is exercised on the real codecs, not modelled",
        "one KafkaVersion answers the three version gates monotonically (Conf.WF)"],
    trusted_base=[],
)
CFG["manifest"] = dict(
    text="Proof (Lean, for every sequence of adds/drops on a produce set, every version generation and codec flag): msgs and records-to-send of each partition are "
         "index-aligned and record i carries key/value/headers and the supplied timestamp of msgs[i]; per format: record batch OffsetDelta i = i and LastOffsetDelta = n-1, "
         "format-1 compressed wrapper carries relative inner offsets 0..n-1 and the first message's timestamp, format-0 wrapper and uncompressed sets are sent as stored; "
         "a broker appending the decoded batch at base writes exactly one entry per submitted message at base+i holding msgs[i], and handleSuccess (ErrNoError) reports base+i "
         "for msgs[i]; decision table of handleSuccess per block. The ErrDuplicateSequenceNumber branch is proved at full strength for the variant that assigns offsets; "
         "the pinned tree reports such successes without offsets (partial theorem + counter-example, known finding). "
         "Bridge: request-version selection, LastOffsetDelta, OffsetDelta / inner-offset assignments, wrapper format+timestamp gate, legacy message format gate and the "
         "switch labels of handleSuccess, and the whole body of the closure handleSuccess runs per partition set (verdict per block incl. `msg.Offset = block.Offset + int64(i)` "
         "and the log-append-time override) are re-translated from /repo on every run and proved equal to the model. "
         "Correspondence + oracle: generated batches (nil/empty/large keys and values, header lists, timestamps) x 9 releases x none/gzip/snappy/lz4/zstd (+levels) x 1..400 messages "
         "over several partitions go through the real produceSet.add/buildRequest, the real framed encode and the real decodeRequest; decoded content must equal the submitted "
         "bytes (incl. nil-ness) in order with nothing added; a simulated log appends the decoded records at bases up to 2^62; the real brokerProducer.handleSuccess "
         "(stub parent) must report for every success the log position holding exactly that message.",
    note="Trusted: Lean kernel; translator tools/extract + GoSem.lean; harness/line protocol. Compression libraries are exercised, not modelled. Not covered here: partitioner choice (C17), "
         "offsets of successes produced by whole-pipeline runs with retries/deduplication (pipeline harness).",
    technique="Lean 4 proof (induction over add sequences) + regenerated bridge obligations + differential correspondence through real encode/decode + simulated log oracle",
)
