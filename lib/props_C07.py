CFG = dict(
    lean_modules=["SaramaVerif.Model.Group", "SaramaVerif.Props.C07", "SaramaVerif.Model.GroupWorld", "SaramaVerif.Props.C07world", "SaramaVerif.Bridge.C07"],
    lean_support=["SaramaVerif.Gen.C07", "SaramaVerif.Driver.GroupTrace"],
    confirm_scenario_diffs=True,
    model="C07",
    overlay=["sim", "c07"],
    required_theorems=["Props.C07.step_inv", "Props.C07.session_order", "Props.C07.setup_needs_sync", "Props.C07.claim_at_most_once",
                       "Props.C07.cleanup_after_claims", "Props.C07.return_after_cleanup", "Props.C07.identity_carried",
                       "Props.C07.identity_changes_only_by_join", "Props.C07.fenced_rejoins_fresh", "Props.C07.fenced_until_join",
                       "Props.C07.retry_budget", "Props.C07.other_error_returned_unchanged", "Props.C07.fenced_join_is_fresh",
                       "Props.C07.session_identity_is_joins", "Props.C07.heartbeats_stop_after_announcement",
                       "Props.C07world.world_projects", "Props.C07world.member_inv", "Props.C07world.step_winv",
                       "Props.C07world.no_double_claim_in_generation",
                       "Bridge.C07.joinErrCases_eq", "Bridge.C07.syncErrCases_eq", "Bridge.C07.heartbeatErrCases_eq",
                       "Bridge.C07.classOfCode_matches_join", "Bridge.C07.classOfCode_matches_sync"],
    n={"quick": 260, "thorough": 5000, "search": 400},
    thorough_seeds=3,
    timeout={"quick": 900, "thorough": 3400},
    level="proof",
    assumptions=[
        "single-member scenarios: further members exist only as scripted entries of the join response (the real member plans for them as leader); multi-member scenarios: 2-3 REAL members share the simulated coordinator (join barrier, held syncs, rebalance on join / leave / expiry); more than 3 live members are covered by the theorems (any number of clients), not by scenarios",
        "claims start at the committed offset / nothing skipped across sessions: decided by the harness oracle on delivered offsets and the coordinator store (C06 proves the offset-manager side)",
        "heartbeat / session / rebalance timing: events, not durations",
    ],
    trusted_base=["simulated cluster incl. group coordinator (harness/overlay/sim_group.go, sim_groupmulti.go)", "handler callbacks + coordinator request log merged by a global counter"],
    manifest=dict(
        text="Proof over a session acceptor: for EVERY accepted sequence of coordinator requests and handler callbacks - Setup at most once per session and only after a successful join+sync, at most one ConsumeClaim per "
             "partition per session and only between Setup and Cleanup, Cleanup at most once and only when every started ConsumeClaim has returned, Consume returns only after Cleanup, every sync/heartbeat/commit/Setup "
             "carries the identity of the latest successful join, a fenced member rejoins with the empty member id. newSession as a function over coordinator answers: retry budget never exceeded, other errors returned "
             "unchanged, fresh identity after fencing, session identity = join's. The verdict classes are bridged from the three switches of consumer_group.go (regenerated every run). Tie: every scenario's merged "
             "coordinator-request / handler-callback sequence is replayed through the compiled model; the oracle additionally checks claims within the assignment, claim start offsets against the coordinator store, "
             "and that no offset is skipped across successive sessions. Any number of members: a world model (one acceptor per client + the member ids and assignments the coordinator handed out) with "
             "world_projects (every client's own events are an accepted single-member history, so all theorems above hold for every member whatever the others do) and no_double_claim_in_generation; "
             "multi-member scenarios (2-3 real members, real rebalances through a join barrier) are replayed per member and, interleaved as they happened, through the world model."
         " Second stream (grp/extra.go, oracles only): one member subscribed to TWO topics with handlers that return later than Rebalance.Timeout after their "
         "claim's channel closed - every (topic, partition) of the assignment gets exactly one ConsumeClaim, Cleanup runs after every started claim returned.",
        note="Trusted: Lean kernel, sim coordinator, harness merge order (global counter taken inside the coordinator lock / at callback entry). Not modelled: timing; scenarios run at most 3 live members (the theorems quantify over any number).",
        technique="Lean 4 invariant proof over a life-cycle acceptor + bridged case tables + replay of real request/callback sequences + end-to-end oracle",
    ),
)
