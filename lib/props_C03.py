CFG = dict(
    lean_modules=["SaramaVerif.Model.ConsumerParse"],
    lean_support=["SaramaVerif.GoSem", "SaramaVerif.Model.ConsumerParseWire"],
    model="C03",
    required_theorems=[],
    n={"quick": 1500, "thorough": 60000, "search": 3000},
    thorough_seeds=4,
    level="proof",
    assumptions=[],
    trusted_base=[],
)
CFG["manifest"] = dict(text="", note="", technique="")
