import os, sys


def _burst_hook(prop, outdir, name, corr_broken, io_fails, log):
    """Once per check run: the subscription-burst rounds (many partitions of one broker subscribed at the same moment),
    in a process of their own built with -race. A reported data race in package sarama, a crash, or a partition that
    never delivers is an IO failure of the property. Without a -race toolchain the plain binary runs the same rounds."""
    if not name.startswith("gen:") or getattr(_burst_hook, "done", False):
        return
    _burst_hook.done = True
    V = sys.modules["__main__"]
    mode = "race"
    try:
        rc, out, binp = V.build_harness(prop, CFG, log, race=True)
    except Exception as e:
        rc, out, binp = 1, str(e), None
    if rc != 0:
        log("race build not possible (rc=%d): %s" % (rc, out[-300:].replace("\n", " | ")))
        mode = "norace"
        binp = os.path.join(V.BUILD, "svh-" + prop.lower())
    od = os.path.join(os.path.dirname(outdir), "burst")
    thorough = "thorough" in sys.argv
    rc, out, dt = V.run_harness(binp, od, 7, "thorough" if thorough else "quick", extra=["-burstonly"], timeout=900)
    log("burst run (%s) rc=%d %.1fs" % (mode, rc, dt))
    inp = "note burst (%s build, -burstonly, seed 7)" % mode
    if "DATA RACE" in out:
        i = out.index("DATA RACE")
        io_fails.append({"sig": "data-race-in-consumer", "input": inp, "detail": out[max(0, i - 20):i + 2500], "stream": "burst"})
    elif rc != 0:
        i = out.find("fatal error")
        io_fails.append({"sig": "burst-run-crashed", "input": inp,
                         "detail": out[i:i + 1200] if i >= 0 else out[-1200:], "stream": "burst"})
    io_fails += [dict(x, stream="burst") for x in V.read_io(od)]


CFG = dict(
    lean_modules=["SaramaVerif.Model.ConsumerParse", "SaramaVerif.Model.ConsumerParseSpec",
                  "SaramaVerif.Lemmas.C03Core", "SaramaVerif.Lemmas.C03Resp", "SaramaVerif.Lemmas.C03Hist",
                  "SaramaVerif.Props.C03", "SaramaVerif.Bridge.C03"],
    lean_support=["SaramaVerif.GoSem", "SaramaVerif.Model.ConsumerParseWire", "SaramaVerif.Gen.C03"],
    model="C03",
    custom=_burst_hook,
    overlay=["sim", "c03"],
    required_theorems=["Props.C03.consume_prefix", "Props.C03.delivered_is_stored", "Props.C03.step_window",
                       "Props.C03.run_window", "Props.C03.consume_progress", "Props.C03.unproductive_keeps_offset",
                       "Props.C03.partial_grows_fetch_size", "Props.C03.too_large_skips_one", "Props.C03.fetch_max_guard",
                       "Props.C03.offset_lower_bound", "Props.C03.consume_complete", "Props.C03.start_offset_choice",
                       "Props.C03.visible_variant_eq", "Props.C03.consume_prefix_fixed", "Props.C03.consume_prefix_partial",
                       "Lemmas.C03.walk_spec", "Lemmas.C03.parse_eq_walk", "Lemmas.C03.resp_core", "Lemmas.C03.resp_static",
                       "Bridge.C03.offsetNewest_eq", "Bridge.C03.offsetOldest_eq", "Bridge.C03.chooseStart_eq",
                       "Bridge.C03.partialTrailing_eq", "Bridge.C03.recordOffset_eq", "Bridge.C03.recordAdvance_eq",
                       "Bridge.C03.bump_eq", "Bridge.C03.legacyRebase_eq"],
    n={"quick": 5000, "thorough": 60000, "search": 3000},
    thorough_seeds=4,
    level="proof",
    assumptions=[
        "the broker is faithful: every data response is a run of consecutive units of the partition log that begins with the first unit whose last offset reaches the asked offset (FaithfulData); error / missing-block / throttled-empty responses carry no data",
        "the log is well-formed (LogWF): per unit the record offsets ascend and lie in (previous unit's last offset, own last offset]; compaction gaps and empty batches allowed",
        "Fetch.Max guard: partial-only data is never answered at fetchSize == Fetch.Max > 0 (holds when Fetch.Max = 0 or every unit fits into Fetch.Max, lemma fetch_max_guard); otherwise the code skips one offset (lemma too_large_skips_one)",
        "isolation: ReadUncommitted or a log without transactional batches (ReadCommitted over transactional logs is C11)",
        "offsets do not overflow int64 (model uses unbounded integers; bridge obligations carry the range hypotheses)",
        "timestamps of v1 compressed sets: theorems hold for the code's rule; they coincide with Kafka's rule (wrapper attribute) only for TsConsistent logs - known finding legacy-v1-wrapper-logappend-timestamp-ignored",
        "goroutine pipeline (dispatcher / responseFeeder / broker worker, slow-reader path, redispatch) is NOT modelled: observed end-to-end only (real Consumer against MockBroker, real time)"],
    trusted_base=[],
)
CFG["manifest"] = dict(
    text="Proof: Lean theorems over ALL well-formed partition logs (record batches, legacy v0/v1 messages and compressed wrappers with absolute / relative inner offsets, "
         "control batches, compaction gaps), all start offsets and all histories of faithful fetch responses (errors, missing block, throttled-empty, data cut anywhere, "
         "partial trailing data): the concatenation of what parseResponse hands over is exactly the visible records of the log with start <= offset < next offset, a prefix of "
         "visibleFrom S, strictly increasing, each message a stored record unaltered (consume_prefix, delivered_is_stored); productive responses strictly advance, others keep the "
         "offset, partial data doubles the fetch size up to Fetch.Max (consume_progress, partial_grows_fetch_size), enough productive responses deliver everything "
         "(consume_complete, with the explicit Fetch.Max guard); chooseStartingOffset decision table (start_offset_choice). "
         "Tie: loop-free fragments of consumer.go (chooseStartingOffset switch, fetch-size doubling block, offset arithmetic, len==0 bumps, v1 rebasing + timestamp rule) are "
         "re-translated from /repo on every run and proved equal to the model (bridge); the loops and the decoder are tied by differential execution: generated logs x formats x "
         "codecs x Kafka 0.8.2-2.8, real FetchResponse encode -> real decode -> real parseResponse vs the compiled model, plus property oracles on the real output and an end-to-end "
         "stream (real Consumer against MockBroker with faults and a slow reader) and consumer scenarios against the simulated cluster (harness/cons: several partitions per broker, slow readers that "
         "get unsubscribed, connection drops / silent brokers / error codes on fetches, leader moves, appends while consuming; oracle: per partition the deliveries are the log from the start offset, "
         "in order, once, unaltered, and delivery does not stall while the partition is reachable); subscription bursts (48 partitions of one broker subscribed at the same moment, every accepted "
         "subscription must deliver) run in a process built with -race, where a data race in the consumer is reported as a failure.",
    note="Trusted: Lean kernel; translator tools/extract + GoSem.lean; harness/line protocol; the abstract view of the decoder (what FetchResponseBlock.decode keeps) is tied by "
         "correspondence only. Modelled not verified: broker behaviour (FaithfulData hypothesis), int64 non-overflow. Not modelled: goroutine pipeline, real time "
         "(MaxProcessingTime ticker), several partitions per broker - observed end-to-end only. Known finding: inner messages of a log-append v1 wrapper get the producer's timestamp.",
    technique="Lean 4 proof (induction over logs / responses / histories, omega) + regenerated bridge obligations + differential correspondence + end-to-end observation",
)
