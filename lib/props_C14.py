import os, re


def _custom(prop, outdir, stream, corr_broken, io_fails, log):
    """Trace validation failures become oracle failures with a concrete replay: every line on which the model
    (svdrv_c14) rejects an observed event or reports another call outcome than the implementation is attributed
    to its case (the `case …` line re-runs that connection: same configuration, callers, server script)."""
    try:
        ops = open(os.path.join(outdir, "ops.txt")).read().split("\n")
        impl = open(os.path.join(outdir, "impl.txt")).read().split("\n")
        model = open(os.path.join(outdir, "model.txt")).read().split("\n")
    except Exception:
        return
    head = None
    seen = set()
    for i, op in enumerate(ops):
        if op.startswith("case "):
            head = op
        if i >= len(impl) or i >= len(model) or impl[i] == model[i] or head is None or head in seen:
            continue
        seen.add(head)
        m = model[i]
        if m.startswith("reject"):
            kind = "rejects-" + re.sub(r"[^A-Za-z-]", "", m.split(" ")[1] if " " in m else "event") + "-at-" + op.split(" ")[0]
        else:
            kind = "outcome-%s-vs-model-%s" % (impl[i].split(" ")[0] + ("-" + impl[i].split(" ")[1] if impl[i].startswith("failed") and " " in impl[i] else ""),
                                               m.split(" ")[0] + ("-" + m.split(" ")[1] if m.startswith("failed") and " " in m else ""))
        io_fails.append({"sig": "c14-trace-" + kind, "input": head, "stream": stream,
                         "detail": "line %d `%s`: implementation %s, model %s" % (i + 1, op[:120], impl[i][:120], m[:160])})
        if len(seen) >= 20:
            break


CFG = dict(
    lean_modules=["SaramaVerif.Model.BrokerConn", "SaramaVerif.Lemmas.C14Inv", "SaramaVerif.Lemmas.C14Wire",
                  "SaramaVerif.Lemmas.C14Fifo", "SaramaVerif.Lemmas.C14Recv", "SaramaVerif.Props.C14",
                  "SaramaVerif.Bridge.C14"],
    lean_support=["SaramaVerif.GoSem", "SaramaVerif.Gen.C14", "SaramaVerif.Driver.C14"],
    model="C14",
    custom=_custom,
    required_theorems=["Props.C14.reach_inv", "Props.C14.wire_order_is_promise_order", "Props.C14.fifo_matching",
                       "Props.C14.fifo_matching_kth", "Props.C14.no_foreign_frame", "Props.C14.mismatch_is_fault", "Props.C14.match_is_not_fault", "Props.C14.body_is_delivered",
                       "Props.C14.delivered_ids_match", "Props.C14.dead_is_sticky_step", "Props.C14.dead_is_sticky",
                       "Props.C14.failures_carry_first_error", "Props.C14.none_pending", "Props.C14.dead_drains",
                       "Props.C14.on_wire_bound", "Props.C14.on_wire_bound_partial",
                       "Props.C14.on_wire_defect_reaches_plus_one", "Props.C14.on_wire_fixed_rejects",
                       "Bridge.C14.getHeaderLength_eq", "Bridge.C14.header_sizes", "Bridge.C14.headerDecodeTail_eq",
                       "Bridge.C14.decodeHeader_v0_eq"],
    n={"quick": 300, "thorough": 5000, "search": 300},
    thorough_seeds=4,
    timeout={"quick": 300, "thorough": 1700},
    level="proof",
    assumptions=[
        "correlation ids are unbounded integers in the model (int32 wrap-around after 2^32 requests on one connection is outside it)",
        "the connection lock, the promise FIFO (Go channel of capacity MaxOpenRequests-1) and the per-promise rendezvous channels behave as mutex / bounded FIFO / hand-off",
        "read deadlines are events (recvTimeout); the server is an arbitrary byte source (any chunks, close, silence)",
        "a partial write error is a plain send failure (nothing of the request counts as written)",
        "decoding of a delivered body (versionedDecode in sendAndReceive) is outside the connection model (C09/C10)",
        "a caller whose promise is enqueued waits for it until the receive loop completes it (the pinned sendAndReceive has no give-up path; "
        "the hand-over of a result to the caller is atomic with the completion): a call that returns while its promise is pending in the model is a "
        "correspondence failure, and a receive loop stuck on an abandoned promise shows as hanging calls / Connected() / Close() in the oracle",
        "ownership of the delivered bytes (the caller's decoded response aliases the body buffer) is not in the model: it is checked on the "
        "implementation by the response-content oracle (byte fields compared when the call returns and again after other responses were read)"],
    trusted_base=["the harness's in-memory net.Conn (exact logging of writes, sends, closes and read time-outs in one total order)"],
)
CFG["manifest"] = dict(
    text="Proof: Lean theorems over ALL event traces of a labelled transition system of one Broker connection (callers under the lock: "
         "write, correlation id++, blocking enqueue into the FIFO of capacity MaxOpenRequests-1, in the source's order; receive loop with the sticky dead "
         "state; byte-level server incl. wrong ids, truncation, bad lengths, close, silence/time-out; Close): the k-th promise is served from the k-th "
         "frame of the server's byte stream and only if its header id is the promise's own id; a mismatching id fails the call and kills the connection; "
         "after the first fault every outstanding and later call gets that error and the receiver never blocks again; wire order = promise order with ids "
         "c0,c0+1,…; requests awaiting a response <= MaxOpenRequests for the repaired write order and <= MaxOpenRequests+1 for the pinned order, with a "
         "kernel-checked trace reaching +1. Tie: getHeaderLength and the length check of responseHeader.decode are re-translated from /repo and proved equal "
         "to the model; every run drives the real Broker (1-16 goroutines, MaxOpenRequests 1/2/5; Metadata, FindCoordinator, ListPartitionReassignments "
         "(header v1), Produce without response, and Fetch/JoinGroup/SyncGroup/DescribeGroups whose responses carry raw byte fields marked per request) against a "
         "scripted server - fast, or slow-but-alive (every answer just under Net.ReadTimeout with several calls pipelined) followed by each kind of fault, later calls, "
         "Connected() and Close(); plus request writes that fail with 0 bytes written on a connection that stays usable (the failed call returns an error, no promise is left behind, "
         "ids keep advancing) - judges each call by the property oracle (own response incl. all byte fields, compared when the call returns and again after the "
         "other responses of the connection were read; nothing delivered after a fault; every call, Connected() and Close() return within a bound) and replays the "
         "totally ordered log of writes/sends/time-outs/returns through the model's step.",
    note="Trusted: Lean kernel; translator + GoSem for the two bridged fragments; the harness connection and line protocol. Modelled not verified: Go's mutex/"
         "channel semantics, read deadlines as events, unbounded correlation ids. The tagged-field check of header v1 and the body size are tied by trace "
         "correspondence only. The pinned tree writes before the blocking enqueue: MaxOpenRequests+1 requests on the wire (known finding). "
         "The model has no 'caller gave up waiting' event (the code has none): such a return is rejected by the replay. Buffer ownership of delivered bodies is checked on the "
         "implementation only. A fatal Go runtime error of the code under test is reported with the connections that were running (harness supervisor process).",
    technique="Lean 4 proof (invariants by induction over event traces) + regenerated bridge obligations + trace validation of the real code",
)
