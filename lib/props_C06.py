CFG = dict(
    # Lean modules whose theorems are this property's proof obligations (built + audited on every run).
    lean_modules=["SaramaVerif.Model.OffsetMgr", "SaramaVerif.Lemmas.C06", "SaramaVerif.Lemmas.C06Sys",
                  "SaramaVerif.Props.C06", "SaramaVerif.Bridge.C06"],
    lean_support=["SaramaVerif.GoSem", "SaramaVerif.Gen.C06", "SaramaVerif.Driver.C06"],
    model="C06",
    required_theorems=[
        # partition level, for all operation sequences
        "Props.C06.reach_inv",
        "Props.C06.committed_was_marked", "Props.C06.committed_was_marked_args", "Props.C06.stored_was_marked",
        "Props.C06.mark_monotone", "Props.C06.reset_antitone", "Props.C06.mark_rejected",
        "Props.C06.next_offset_spec", "Props.C06.next_offset_fresh", "Props.C06.next_offset_committer",
        "Props.C06.clean_means_stored", "Props.C06.dirty_cleared_only_by_equal_commit",
        "Props.C06.commits_monotone_without_reset", "Props.C06.store_monotone_without_reset",
        "Props.C06.store_monotone_from_start",
        "Props.C06.no_lost_mark", "Props.C06.no_lost_update",
        "Props.C06.close_flushes_latest_partition",
        # system level
        "Props.C06.sys_reach_inv", "Props.C06.sys_partition_trace", "Props.C06.sys_committed_was_marked",
        "Props.C06.request_blocks_are_commits", "Props.C06.sys_request_blocks_marked",
        "Props.C06.close_flushes_latest",
        # initial fetch of ManagePartition
        "Props.C06.fetch_ok_is_answered_ok", "Props.C06.fetch_budget_exhausted_fails",
        # bridge obligations (regenerated definitions = model)
        "Bridge.C06.markOffset_eq", "Bridge.C06.resetOffset_eq", "Bridge.C06.updateCommitted_eq",
        "Bridge.C06.nextOffset_eq", "Bridge.C06.asyncClose_eq", "Bridge.C06.releaseDue_eq",
        "Bridge.C06.snapshotIf_eq", "Bridge.C06.respCases_eq", "Bridge.C06.fetchCases_eq",
        "Bridge.C06.pstep_mark_fields", "Bridge.C06.pstep_reset_fields", "Bridge.C06.pstep_verdict_ok_fields",
        "Bridge.C06.pstep_release_live", "Bridge.C06.pstep_snap_block", "Bridge.C06.nextAnswer_eq",
        # the body of handleResponse's loop (switch incl. fallthrough) = the model's per-verdict effects
        "Bridge.C06.respBody_not_in_request", "Bridge.C06.respBody_in_request",
        "Bridge.C06.pverdictFor_respond", "Bridge.C06.replyDrops_respond", "Bridge.C06.stepErrs_respond",
    ],
    # n = random wire cases per run; the harness adds n/10+200 steered windows, n/8+150 connection-failure scenarios (half of them with
    # the real sarama client), n/8 random wire cases with the real sarama client, 20 (quick) / 300 (thorough) concurrent stress cases,
    # n/8+150 initial-fetch fault scenarios (half of them outlasting Metadata.Retry.Max), n/2 fine-grained random cases and
    # the exhaustive fine-grained enumeration (length <= 4 quick: 22 620 cases; <= 5 once per thorough run: 271 452)
    n={"quick": 2000, "thorough": 30000, "search": 3000},
    thorough_seeds=2,
    timeout={"quick": 600, "thorough": 3000},
    level="proof",
    assumptions=[
        "one committer at a time (the property's quantifier): constructRequest is not entered while another commit attempt is under way; "
        "Close's forced release happens with no attempt under way",
        "the coordinator's offset store for the group changes only through this manager's OffsetCommit requests, and a partition answered "
        "NoError was stored (a lost answer after storing is modelled: verdict okLost / reply connErr applied)",
        "constructRequest / handleResponse / releasePOMs visit the partitions one by one under per-partition locks; the model makes each visit "
        "of all partitions one step (application calls on other partitions commute with the visit of a partition)",
        "metadata strings are opaque values that are only copied and compared (integer codes in model and line protocol)",
        "coordinator lookup (client.RefreshCoordinator / Coordinator) and the coordinator's answers are parameters of the operations; after a "
        "connection failure the coordinator stays on the same id and address and the next lookup hands back the SAME Broker object after Open() "
        "(what sarama's client does; the scripted client of the harness does the same, and part of the cases run with the real sarama.NewClient), "
        "so the model's 'the next flush reaches the coordinator again' depends on flushToBroker closing the failed connection; "
        "fetchInitialOffset is modelled as a function of a per-attempt fault script (coordinator moved, offsets loading, request error, lookup "
        "failure, missing block, other error) and Metadata.Retry.Max; its back-off sleep is not timed",
        "the auto-commit ticker is replaced by explicit Commit() calls (ticker timing is a stated gap); marks concurrent with Close() are outside "
        "the property (\"latest mark made before Close\")",
    ],
    trusted_base=[],
)
CFG["manifest"] = dict(
    text="Proof: Lean theorems over ALL operation sequences of the partition offset manager state machine (MarkOffset, ResetOffset, AsyncClose, "
         "ManagePartition, snapshot by constructRequest, end of a commit attempt with any verdict incl. a stored-but-unacknowledged commit, "
         "releasePOMs, in any interleaving): every committed/stored pair is the fetched pair or the argument of an earlier accepted mark/reset; "
         "mark never lowers / reset never raises the position; NextOffset = newest accepted pair, or the initial position when its offset < 0; "
         "not dirty => pending pair = stored pair (dirty is cleared only by NoError for a block equal to the pending pair); commits and the "
         "stored offset are monotone along runs without accepted reset; a mark accepted while a commit is in flight leaves the partition dirty "
         "and is the block of the next snapshot; Close with auto-commit stores the pair pending at Close for every registered partition if one "
         "of the Retry.Max+1 attempts is accepted (system-level theorem over partitions, cached coordinator, lookup failures, early loop exit); "
         "ManagePartition creates a pom only from an OffsetFetch attempt answered NoError within Metadata.Retry.Max+1 attempts and returns an "
         "error when every permitted attempt meets a retryable failure (fetchInitial model, tied by correspondence + the oracle 'a new pom starts "
         "at the stored pair'; only the labels of its error switch are bridged). "
         "A system model (all partitions, broker cache, request under way) is proved to project onto partition runs, and its request blocks to "
         "be the partitions' newest commit-log entries. Tie: MarkOffset, ResetOffset, updateCommitted, NextOffset, AsyncClose, the releaseDue "
         "expression, the `if pom.dirty {AddBlock…}` fragment, the case labels of handleResponse's error switch AND the whole body of handleResponse's loop "
         "(skip if not in the request, missing topic / missing entry, every switch clause incl. the fallthrough: which calls of updateCommitted, "
         "releaseCoordinator, handleError happen) are re-translated from /repo on every run and proved equal to the model's functions (bridge); "
         "everything else (the loops over poms themselves, maps, flushToBroker / Commit / Close control flow, lookup, error channel delivery) is "
         "tied by differential execution of the real offsetManager against the compiled model.",
    note="Trusted: Lean kernel; translator tools/extract + GoSem.lean; harness/line protocol; sarama's MockBroker as transport of the scripted "
         "coordinator. Opaque calls inside the translated fragments (updateCommitted, releaseCoordinator, handleError, AddBlock) are matched by their "
         "literal statement text and represented by ghost variables. Not covered: "
         "ticker timing, several concurrent committers, real goroutine interleavings inside one visit loop "
         "(argued by commutation, exercised only at the granularity of whole visits).",
    technique="Lean 4 proof (invariants + induction over operation lists, projection of a system model onto partition runs) + regenerated "
              "bridge obligations + differential correspondence (wire-level scripted coordinator over real TCP connections with marks steered into the commit window, "
              "connection failures on the k-th OffsetCommit - dropped before/after applying, or swallowed until Net.ReadTimeout - with the coordinator "
              "staying on the same id+address, scripted and real sarama client, "
              "and fine-grained step stream incl. exhaustive enumeration)",
)
