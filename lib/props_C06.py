CFG = dict(
    lean_modules=["SaramaVerif.Model.OffsetMgr"],
    lean_support=["SaramaVerif.GoSem", "SaramaVerif.Gen.C06"],
    model="C06",
    required_theorems=[],
    n={"quick": 300, "thorough": 100000, "search": 2000},
    thorough_seeds=4,
    level="proof",
    assumptions=[],
    trusted_base=[],
)
CFG["manifest"] = dict(text="wip", note="wip", technique="wip")
