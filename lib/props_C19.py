CFG = dict(
    # Lean modules whose theorems are this property's proof obligations (built + audited on every run).
    lean_modules=["SaramaVerif.Model.Admin", "SaramaVerif.Props.C19", "SaramaVerif.Bridge.C19"],
    lean_support=["SaramaVerif.GoSem", "SaramaVerif.Gen.C19"],
    model="C19",
    required_theorems=[
        # retry wrapper
        "Props.C19.retry_first_final", "Props.C19.retry_exhausted",
        "Props.C19.attempts_pos_atLeastOne", "Props.C19.attempts_pos_plusOne", "Props.C19.attempts_pos_asIs",
        # reading of answers
        "Props.C19.inspect_item_code", "Props.C19.inspect_item_incomplete", "Props.C19.inspect_item_transport",
        "Props.C19.inspect_nc", "Props.C19.inspect_nc_err", "Props.C19.inspect_ok_iff",
        # controller-bound operations
        "Props.C19.controller_op_core", "Props.C19.controller_op_spec", "Props.C19.controller_op_error_unchanged",
        "Props.C19.controller_op_exhausted", "Props.C19.controller_op_success_only_if_acked",
        "Props.C19.controller_op_unsupported", "Props.C19.controller_op_spec_partial",
        "Props.C19.reassign_pinned_single_attempt",
        # grouping
        "Props.C19.group_one_request_per_broker", "Props.C19.group_entries", "Props.C19.group_each_item_once",
        "Props.C19.grouping_spec_delete_records", "Props.C19.delete_records_lookup_error",
        "Props.C19.grouping_spec_describe_groups", "Props.C19.describe_groups_lookup_error",
        "Props.C19.delete_group_spec", "Props.C19.list_group_offsets_spec", "Props.C19.describe_log_dirs_spec",
        # bridge
        "Bridge.C19.errNotController_eq", "Bridge.C19.errNoError_eq", "Bridge.C19.errUnsupportedVersion_eq",
        "Bridge.C19.createTopicsVersion_eq", "Bridge.C19.deleteTopicsVersion_eq", "Bridge.C19.offsetFetchVersion_eq",
        "Bridge.C19.createTopicsRequiredCases_eq", "Bridge.C19.deleteTopicsRequiredCases_eq",
        "Bridge.C19.createTopicsRequired_eq", "Bridge.C19.deleteTopicsRequired_eq",
        "Bridge.C19.createPartitionsRequired_eq", "Bridge.C19.reassignRequired_eq",
        "Bridge.C19.deleteRecordsRequired_eq", "Bridge.C19.deleteGroupsRequired_eq",
        "Bridge.C19.deleteGroupInspect_eq", "Bridge.C19.deleteGroupInspect_eq_inspectItem",
        "Bridge.C19.retryLoopBody_eq",
        "Bridge.C19.isNoCtrlTopicError_eq", "Bridge.C19.isNoCtrlKError_eq", "Bridge.C19.isNoCtrlDefault_eq",
        "Bridge.C19.createTopicClosure_eq", "Bridge.C19.deleteTopicClosure_eq", "Bridge.C19.createPartitionsClosure_eq",
        "Bridge.C19.closures_controller_error",
        "Bridge.C19.reassignNotController_eq", "Bridge.C19.reassignTopError_eq",
        "Bridge.C19.reassignPartitionError_eq", "Bridge.C19.reassignResult_eq",
    ],
    n={"quick": 10000, "thorough": 200000, "search": 4000},
    thorough_seeds=4,
    level="proof",
    assumptions=[
        "broker answers, the controller's whereabouts per attempt, partition leadership and group coordinators are arbitrary scripts (parameters of the model)",
        "client.Controller/RefreshController/Leader/Coordinator are modelled by their contract (cached id / id from fresh metadata / lookup result); C15 ties them to metadata",
        "the back-off sleep of retryOnError is ignored; a broker call that returns an error without a usable response is one opaque 'transport' outcome (injected as an undecodable response)",
        "DescribeLogDirs is modelled for broker ids the client knows (an unknown id makes the pinned code wait forever: probed and reported, outside the statement)",
    ],
    trusted_base=[],
)
CFG["manifest"] = dict(
    text="Proof: Lean theorems over ALL scripts (controller id and answer per attempt, every Admin.Retry.Max, every error code, "
         "missing items, undecodable answers, every leadership / coordinator map over any broker set) that (1) a controller-bound "
         "operation returns what the first answer that is not NOT_CONTROLLER among the allowed attempts says - success exactly when "
         "that answer acknowledges every requested item, any other code typed and unchanged without retry - after sending attempt i to "
         "the controller the refreshed metadata named at that time, with index+1 requests and one refresh per NOT_CONTROLLER; "
         "(2) DeleteRecords / DescribeConsumerGroups send one request per leader / coordinator carrying exactly its items (each item "
         "exactly as often as requested, never to another broker) and report an error as soon as one broker call fails or one item "
         "carries an error code; DeleteConsumerGroup / ListConsumerGroupOffsets / DescribeLogDirs ask the right broker once and hand its "
         "verdict on. The theorems are proved for the repaired variants of the model; for the defect variants (the tree as first pinned) they hold under the stated "
         "extra hypotheses (Admin.Retry.Max >= 1; not AlterPartitionReassignments) and concrete counter-examples are proved for the "
         "rest (three of them since repaired in /repo, one still a known finding). Re-translated from /repo on every run and proved "
         "equal to the model: version-selection chains, requiredVersion tables, error constants, the DeleteConsumerGroup tail, the body of "
         "retryOnError's loop with its exits, the clauses of isErrNoController's type switch, the complete closures of CreateTopic / "
         "DeleteTopic / CreatePartitions, and the loop-free tests of the AlterPartitionReassignments closure. The loop condition of "
         "retryOnError, the range loops of the reassignment closure, the grouping loops and the operations as a whole are tied by "
         "differential execution of the real ClusterAdmin against scripted in-package MockBrokers "
         "(result + per-broker request log + metadata refresh count vs the compiled model) plus an oracle that evaluates the property "
         "statement itself on result and request log.",
    note="Trusted: Lean kernel; translator tools/extract + GoSem.lean; harness, scripted MockBroker handlers (overlay c19_cluster.go) and line protocol. "
         "Modelled not verified: client-side controller/leader/coordinator caches (contract only), the wire codec (C09/C10), timing/back-off. "
         "Repaired in /repo (the check would report them again as violations): Admin.Retry.Max=0 returned nil without sending (1639279); "
         "AlterPartitionReassignments did not recognise NOT_CONTROLLER (1bccd35) nor a negative top-level code (eae4ebe). Still a known finding: "
         "AlterPartitionReassignments reports success when the response lacks a requested partition. "
         "DescribeLogDirs with an unknown broker id never returns (observed, outside the statement).",
    technique="Lean 4 proof (induction over the retry loop with a client/world invariant; list counting for the grouping) + regenerated bridge obligations + differential correspondence against scripted mock brokers",
)
