CFG = dict(
    lean_modules=["SaramaVerif.Model.Admin"],
    lean_support=["SaramaVerif.GoSem"],
    model="C19",
    required_theorems=[],
    n={"quick": 2500, "thorough": 40000, "search": 4000},
    thorough_seeds=4,
    level="proof",
    assumptions=[],
    trusted_base=[],
)
CFG["manifest"] = dict(text="", note="", technique="")
