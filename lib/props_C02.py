CFG = dict(
    lean_modules=["SaramaVerif.Model.PartProd", "SaramaVerif.Model.Producer", "SaramaVerif.Props.C01", "SaramaVerif.Props.C02",
                  "SaramaVerif.Model.BrokerProd", "SaramaVerif.Props.C02bp"],
    lean_support=["SaramaVerif.Driver.ProducerTrace", "SaramaVerif.Model.IdemBroker"],
    model="C02",
    overlay=["sim", "c02"],
    required_theorems=["Props.C02.recv_level", "Props.C02.pp_level_fifo", "Props.C02.parked_only_below_hwm", "Props.C02.runAll_inv",
                       "Props.C02bp.bp_at_most_one_set_in_flight", "Props.C02bp.bp_partition_fifo", "Props.C02bp.bp_conservation",
                       "Props.C02bp.bp_quiet_after_failure", "Props.C02bp.bp_quiet_while_refused", "Props.C02bp.bp_bounces_in_order",
                       "Props.C02bp.bp_bounce_order_preserving", "Props.C02bp.step_fifo", "Props.C02bp.step_quiet", "Props.C02bp.run_inv",
                       "Props.C02bp.bp_empty_set_needs_stale", "Props.C02bp.bp_stale_origin"],
    n={"quick": 800, "thorough": 15000, "search": 2000},
    thorough_seeds=3,
    timeout={"quick": 600, "thorough": 3000},
    level="proof",
    assumptions=[
        "end-to-end log order (first copies in submission order, success offsets increasing) is decided per run by the oracle on the simulated partition logs; the Lean theorems cover the partition producer's level discipline (per-level FIFO, parking only below the high watermark), not the composition with broker workers and the retry queue",
        "Go channels deliver per-sender FIFO (assumed); the submitting goroutine of the harness is single",
    ],
    trusted_base=["hooks in /repo (build tag verif)", "simulated cluster harness/overlay/sim_cluster.go"],
    manifest=dict(
        text="Partial proof + trace validation + oracle. Proved for every arrival sequence: the partition producer (the component that restores order after retries) emits the data messages of each retry level "
             "in arrival order, parks messages only below the current high watermark, and on the chaser of the current level flushes exactly the parked levels downwards (pp_level_fifo, parked_only_below_hwm). "
             "Tie: every pp.recv event of the real partitionProducer is replayed through the Lean transducer and the real code's next actions (park / forward-or-fail / send chaser / consume chaser, ids and levels) "
             "must equal the model's. The end-to-end statement (log order = submission order across retries, leader moves, disconnects, every Retry.Max) is evaluated by the oracle on the simulated brokers' logs in "
             "hundreds of fault-scripted scenarios per run; its composition proof (broker-worker lemmas + FIFO composition) is open and named in Props/C02.lean.",
        note="Trusted: Lean kernel, hooks, sim cluster. Partial: composition into log_order not proved. Known findings: Retry.Max=0 and idempotent-mode reorderings.",
        technique="Lean 4 proof of the partition-producer level discipline + transducer replay of hooked events + end-to-end order oracle on simulated logs",
    ),
)
