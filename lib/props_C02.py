CFG = dict(
    lean_modules=["SaramaVerif.Model.PartProd", "SaramaVerif.Model.Producer", "SaramaVerif.Props.C01", "SaramaVerif.Props.C02",
                  "SaramaVerif.Model.BrokerProd", "SaramaVerif.Props.C02bp",
                  "SaramaVerif.Model.Pipeline", "SaramaVerif.Lemmas.C02sysView", "SaramaVerif.Lemmas.C02sysView2",
                  "SaramaVerif.Lemmas.C02sysLive", "SaramaVerif.Lemmas.C02sysBP", "SaramaVerif.Lemmas.C02sysRep",
                  "SaramaVerif.Lemmas.C02sysStepA", "SaramaVerif.Lemmas.C02sysStepB", "SaramaVerif.Lemmas.C02sysLog",
                  "SaramaVerif.Lemmas.C02sysStepR", "SaramaVerif.Lemmas.C02sysStepD", "SaramaVerif.Lemmas.C02sysStepD2",
                  "SaramaVerif.Lemmas.C02sysStepP", "SaramaVerif.Lemmas.C02sysStepP2", "SaramaVerif.Lemmas.C02sysStepP3",
                  "SaramaVerif.Lemmas.C02sysFifo", "SaramaVerif.Lemmas.C02sysCons", "SaramaVerif.Lemmas.C02sysCons2",
                  "SaramaVerif.Lemmas.C02sysCons3", "SaramaVerif.Props.C02sys"],
    lean_support=["SaramaVerif.Driver.ProducerTrace", "SaramaVerif.Driver.PipelineTrace", "SaramaVerif.Model.IdemBroker"],
    model="C02",
    overlay=["sim", "c02"],
    required_theorems=["Props.C02.recv_level", "Props.C02.pp_level_fifo", "Props.C02.parked_only_below_hwm", "Props.C02.runAll_inv",
                       "Props.C02bp.bp_at_most_one_set_in_flight", "Props.C02bp.bp_partition_fifo", "Props.C02bp.bp_conservation",
                       "Props.C02bp.bp_quiet_after_failure", "Props.C02bp.bp_quiet_while_refused", "Props.C02bp.bp_bounces_in_order",
                       "Props.C02bp.bp_bounce_order_preserving", "Props.C02bp.step_fifo", "Props.C02bp.step_quiet", "Props.C02bp.run_inv",
                       "Props.C02bp.bp_empty_set_needs_stale", "Props.C02bp.bp_stale_origin",
                       "Props.C02sys.init_inv", "Props.C02sys.step_inv", "Props.C02sys.run_inv",
                       "Props.C02sys.log_order_single_worker", "Props.C02sys.no_nil_deref_single_worker",
                       "Props.C02sys.conservation_sys", "Props.C02sys.retry_path_fifo"],
    n={"quick": 800, "thorough": 15000, "search": 2000},
    thorough_seeds=3,
    timeout={"quick": 600, "thorough": 3000},
    level="proof",
    assumptions=[
        "end-to-end log order is PROVED (log_order_single_worker) for the composed system model (submit / dispatcher / partition producer / broker worker / retry queue / broker log, any interleaving, leader moves that come back, lookup failures, stale and empty sets, connection errors, every Retry.Max >= 1) in which one partition uses one broker worker and the producer is not idempotent; a true hand-over of the partition to a SECOND live worker, several partitions sharing a worker, Retry.Max = 0 and the idempotent paths are decided per run by the oracle on the simulated partition logs only (statement kept as LogOrderGeneral); the composed system model IS trace-validated on every run (`sys` lines, Driver/PipelineTrace.lean + harness/pipe/sys.go): for every scenario in its scope (one partition in use, not idempotent, Retry.Max >= 1, acknowledgements on; about 60% of the quick run) the hook events of the real producer are translated into the model's choices (submit, dispatch, retryOut, ppRecv with the leader-lookup results, bpRecv with the overflow flag, handover, broker verdict with appended-or-not from the simulated broker, deliver, leader moves inferred from where appends happened), every choice must be enabled in Model.Pipeline.sysStep and move the very token the real component moved, and at the end the model's log, success offsets and errors must equal the simulated partition log and the reported outcomes. CAVEAT on the proved scope: the real producer releases its broker worker at every retry-level change and selects a NEW worker, so real runs with a retry are multi-worker runs of the model (replayed and accepted by the executable model, counted as sys-replayed-multi-worker, but covered by the unproved LogOrderGeneral); log_order_single_worker covers the runs counted as sys-replayed-single-worker and the abstraction in which the drained old worker and its successor are one sequential process",
        "Go channels deliver per-sender FIFO (assumed); the submitting goroutine of the harness is single",
    ],
    trusted_base=["hooks in /repo (build tag verif)", "simulated cluster harness/overlay/sim_cluster.go"],
    manifest=dict(
        text="Proof (single-worker composition) + trace validation + oracle. Composed system model Model/Pipeline.lean (rank counter, dispatcher queue, partition producer = Model.PartProd.recv, broker workers = the full Model.BrokerProd.step, one FIFO retry path, leader, broker log, success offsets) with log_order_single_worker (success offsets increase with submission rank and first copies appear in rank order, for every schedule and fault choice with one worker per partition, Retry.Max >= 1), conservation_sys (every submitted id is in exactly one place), retry_path_fifo (any number of workers) and no_nil_deref_single_worker. Component theorems, for every arrival sequence: the partition producer (the component that restores order after retries) emits the data messages of each retry level "
             "in arrival order, parks messages only below the current high watermark, and on the chaser of the current level flushes exactly the parked levels downwards (pp_level_fifo, parked_only_below_hwm). "
             "Tie: every pp.recv event of the real partitionProducer is replayed through the Lean transducer and the real code's next actions (park / forward-or-fail / send chaser / consume chaser, ids and levels) "
             "must equal the model's. The end-to-end statement (log order = submission order across retries, leader moves, disconnects, every Retry.Max) is evaluated by the oracle on the simulated brokers' logs in "
             "hundreds of fault-scripted scenarios per run; the general multi-worker composition is open (LogOrderGeneral).",
        note="Trusted: Lean kernel, hooks, sim cluster. Partial: log order proved for one worker per partition (non-idempotent, Retry.Max >= 1); hand-over to a second live worker only observed. Known findings: Retry.Max=0 and idempotent-mode reorderings.",
        technique="Lean 4 proof of log order for the composed pipeline model (single worker per partition) and of the partition-producer / broker-worker disciplines + transducer replay of hooked events + end-to-end order oracle on simulated logs",
    ),
)
