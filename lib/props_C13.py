CFG = dict(
    lean_modules=["SaramaVerif.Model.BalancePlan", "SaramaVerif.Model.BalanceRange", "SaramaVerif.Model.BalanceRoundRobin",
                  "SaramaVerif.Model.BalanceStickyPieces", "SaramaVerif.Model.BalanceSticky",
                  "SaramaVerif.Lemmas.C13Range", "SaramaVerif.Lemmas.C13RR", "SaramaVerif.Lemmas.C13Sticky",
                  "SaramaVerif.Props.C13"],
    lean_support=["SaramaVerif.Model.BalanceLine", "SaramaVerif.Lemmas.C08Assoc", "SaramaVerif.Lemmas.C08Range",
                  "SaramaVerif.Lemmas.C08RR", "SaramaVerif.Lemmas.C08Valid", "SaramaVerif.Lemmas.C08StickyAL",
                  "SaramaVerif.Lemmas.C08Sticky", "SaramaVerif.Lemmas.C08StickyEnv", "SaramaVerif.Lemmas.C08StickyOps",
                  "SaramaVerif.Lemmas.C08StickyAssign", "SaramaVerif.Lemmas.C08StickyFinal"],
    model="C13",
    # both properties use the same overlay file (harness/overlay/c08_balance.go)
    overlay=["c08"],
    required_theorems=["Props.C13.range_sizes", "Props.C13.range_plan_sizes",
                       "Props.C13.rr_identical_subs_diff_le_one", "Props.C13.identicalSubs_all",
                       "Props.C13.sticky_isBalanced_sound", "Props.C13.sticky_fixpoint_balanced",
                       "Props.C13.sticky_balanced_blocks_moves", "Props.C13.replan_is_identity"],
    n={"quick": 20000, "thorough": 1000000, "search": 20000},
    thorough_seeds=1,
    timeout={"quick": 300, "thorough": 1700},
    # the overlay calls unexported sticky functions: full build with tag c08pieces, fallback = Plan-level harness only
    build_tags=["c08pieces"],
    fallback_tags=[],
    level="proof",
    assumptions=[
        "range: float rounding as a relational parameter (RangeBoundary), checked per run on the real bounds",
        "round-robin: 'identical subscriptions' is read as ALL members having the same topic set (for two equal members among others the claim is false "
        "already in Kafka's algorithm; kernel-checked counter-example in Props/C13)",
        "sticky: proved on the model: soundness of isBalanced, local balance of a state without enabled move, no move/revert while the test passes, "
        "re-planning a complete plan that passes the test is the identity; NOT proved: that performReassignments reaches such a state "
        "(it may not terminate), leave/join stickiness and absence of pairwise swaps - these are evaluated on every real plan by the oracle only",
        "correspondence of the sticky op model to the Go loops is by reading plus differential tests of the pure pieces",
    ],
    trusted_base=[],
)
CFG["manifest"] = dict(
    text="Proof: Lean theorems for all sizes/orders: range_sizes/range_plan_sizes (for ANY bounds satisfying the relational rounding spec each "
         "subscriber of a topic holds a contiguous run of floor(n/m) or ceil(n/m) partitions, also when m divides n; sizes differ by at most one); "
         "rr_identical_subs_diff_le_one (identical subscriptions: member k gets floor(L/n)+[k < L mod n], spread <= 1); sticky: sticky_isBalanced_sound "
         "(balance test true => Kafka's criterion), sticky_fixpoint_balanced (no enabled move => locally balanced), sticky_balanced_blocks_moves, "
         "replan_is_identity (complete plan + passing test => no operation possible, every member gets its list back; both variants). "
         "Tie: same differential harness as C08 (real Plan vs compiled models for range/round-robin/pure sticky pieces); the balance and stickiness "
         "predicates of the statement (Kafka balance, replan identity, keep-on-leave, no-shuffle-on-join, no pairwise swap) are evaluated on every real "
         "plan along generated rebalance chains by a Go oracle that is itself compared line by line with the Lean predicates.",
    note="Partial: global balance / stickiness of the plans sticky RETURNS is observed (oracle over chains), not proved - performReassignments has no "
         "termination/progress proof (and a non-terminating input exists, see C08). Known finding: join shuffles between old members when `topics` "
         "has a topic without subscriber.",
    technique="Lean 4 proof (nonlinear arithmetic by hand, induction) + differential correspondence + property oracle on rebalance chains",
)
