import os, sys


def _race_hook(prop, outdir, name, corr_broken, io_fails, log):
    """Once per check run (after the first generated stream): the concurrent-decoders family in a process of its own,
    built with -race (CGO). A reported data race, a crash, or an oracle failure there is an IO failure of the property.
    Without a -race toolchain the plain binary runs the same family once more."""
    if not name.startswith("gen:") or getattr(_race_hook, "done", False):
        return
    _race_hook.done = True
    V = sys.modules["__main__"]
    mode = "race"
    try:
        rc, out, binp = V.build_harness(prop, CFG, log, race=True)
    except Exception as e:
        rc, out, binp = 1, str(e), None
    if rc != 0:
        log("race build not possible (rc=%d): %s" % (rc, out[-300:].replace("\n", " | ")))
        mode = "norace"
        binp = os.path.join(V.BUILD, "svh-" + prop.lower())
    od = os.path.join(os.path.dirname(outdir), "conc")
    thorough = "thorough" in sys.argv
    ms = "8000" if thorough else "1500"
    rc, out, dt = V.run_harness(binp, od, 7, "thorough" if thorough else "quick", extra=["-conconly", ms], timeout=600)
    log("concurrent decoders (%s build) rc=%d %.1fs" % (mode, rc, dt))
    inp = "note concurrent decoders (%s build, -conconly %s, seed 7)" % (mode, ms)
    if "DATA RACE" in out:
        i = out.index("DATA RACE")
        io_fails.append({"sig": "data-race", "input": inp, "detail": out[max(0, i - 20):i + 1800], "stream": "conc"})
    elif rc != 0:
        i = out.find("fatal error")
        io_fails.append({"sig": "concurrent-run-crashed", "input": inp,
                         "detail": out[i:i + 1200] if i >= 0 else out[-1200:], "stream": "conc"})
    io_fails += [dict(x, stream="conc") for x in V.read_io(od)]


CFG = dict(
    lean_modules=["SaramaVerif.Model.CodecPrim", "SaramaVerif.Model.CodecFmt", "SaramaVerif.Model.CodecRecords",
                  "SaramaVerif.Model.CodecMachine", "SaramaVerif.Model.CodecSchemas",
                  "SaramaVerif.Lemmas.C09Prim", "SaramaVerif.Lemmas.C09Fmt", "SaramaVerif.Lemmas.C09Records", "SaramaVerif.Lemmas.C09Machine",
                  "SaramaVerif.Props.C09", "SaramaVerif.Bridge.C09"],
    lean_support=["SaramaVerif.GoSem", "SaramaVerif.Gen.C09", "SaramaVerif.Driver.C09"],
    model="C09",
    custom=_race_hook,
    required_theorems=[
        "Props.C09.int_roundtrip", "Props.C09.varint_roundtrip", "Props.C09.uvarint_roundtrip",
        "Props.C09.varint_zigzag_spec", "Props.C09.uvarint_spec",
        "Props.C09.prim_dec_enc", "Props.C09.prim_size_eq",
        "Props.C09.array_length_roundtrip", "Props.C09.compact_array_length_roundtrip",
        "Props.C09.size_eq_enc_length", "Props.C09.varlen_adjust_exact", "Props.C09.dec_enc",
        "Props.C09.reencode_same_bytes", "Props.C09.gate_spec", "Props.C09.len32_covers", "Props.C09.crc_covers",
        "Props.C09.record_varlen_spec", "Props.C09.record_roundtrip", "Props.C09.batch_length_overhead",
        "Props.C09.batch_crc_covers", "Props.C09.message_crc_covers",
        "Props.C09.recordbatch_roundtrip", "Props.C09.recordbatch_roundtrip_uncompressed",
        "Props.C09.message_roundtrip", "Props.C09.messageset_roundtrip", "Props.C09.messageset_wrapper_inner",
        "Props.C09.records_magic_dispatch", "Props.C09.machine_encode", "Props.C09.machine_prep_fresh",
        "Bridge.C09.recordBatchOverhead_eq", "Bridge.C09.maximumRecordOverhead_eq", "Bridge.C09.magicOffset_eq", "Bridge.C09.attribute_masks_eq",
        "Bridge.C09.tags_distinct", "Bridge.C09.prepPutInt_eq", "Bridge.C09.lengthFieldCheck_eq",
        "Bridge.C09.varintAdjust_eq", "Bridge.C09.prep_pop_varlen", "Bridge.C09.varintCheck_eq",
        "Bridge.C09.compactArrayLength_eq", "Bridge.C09.compactArrayLength_err", "Bridge.C09.arrayLengthGuard_eq"],
    # n = random values per body × version (plus 3 fixed shapes each); scripts and record cases scale in the harness
    n={"quick": 60, "thorough": 1000, "search": 40},
    thorough_seeds=3,
    level="proof",
    assumptions=[
        "compression libraries (gzip, snappy, lz4, zstd) and the code around them in compress.go/decompress.go are an abstract "
        "invertible pair in the model: theorems assume decompress(compress(x)) = x on the payloads involved. The tie for exactly that "
        "assumption is differential only: (a) the harness feeds the model the library's actual answers (including its failures) for random "
        "records / batches / wrapper messages, and (b) the `xcase` stream runs decode(encode(v)) = v on the real code for every codec "
        "(none, gzip default/1/9 - all levels 1..9 in thorough -, snappy, lz4, zstd) x both framings (record batch v2; legacy compressed "
        "wrapper magic 0 and 1) x payload classes at the extremes of compressibility: one byte repeated (32 KiB, 256 KiB, 1000 KiB in one "
        "record, 300 KiB over 3000 records), a short pattern repeated (one record / 500 records), zeros with a few random bytes, "
        "incompressible random bytes (one record / 700 records), tiny payloads; thorough adds random shape/size/count draws up to 900 KiB. "
        "Checked: records, keys, values, headers, counts, no partial/overflow flags, re-encoded bytes identical. Not covered: payloads "
        "above ~1 MiB, other compression ratios than these classes reach (about 1000:1 for deflate)",
        "encoding/binary (PutUvarint/Uvarint/PutVarint/Varint, BigEndian) and hash/crc32 are re-implemented in the model "
        "(bitwise CRC, fuel-10 varint) and tied by byte-level correspondence, not by translation",
        "protocol bodies are tied to the schema theorems through the call sequence their real encode/decode make on the "
        "packetEncoder/packetDecoder for generated values (recorded, then interpreted by the model machines and, for 76 of 78 types, "
        "parsed against a hand-written schema per type) - not by static extraction of the 275 methods",
        "the model's size/enc are pure functions of the value; that the real encode() is history-free (no state carried from one "
        "call to the next, in particular after a refused encode: oversize under a lowered MaxRequestSize, string too long, invalid "
        "timestamp inside nested length/CRC fields, refused flag) is tied by the `hist` stream only: sequences of 6-15 encodes of random "
        "bodies with refused encodes interleaved, each valid encode compared with a clean sizing+writing pass and decoded",
        "the model's dec is a pure function of the bytes; that the real decoder shares no mutable state between calls (pooled CRC / "
        "length fields, readers) is tied by the `concrun` family only: 8 goroutines decode and re-encode a corpus of valid encodings "
        "(legacy sets magic 0/1 plain and wrapped with every codec, record batches with every codec, FetchResponse v1/v4/v11 and "
        "ProduceRequest v2/v7 carrying records) for 1 s (6 s thorough) against the single-threaded reference, and once more in a "
        "-race build where a reported DATA RACE is a failure (observed, not proved)",
        "time.Time/time.Duration fields are compared at the wire granularity (milliseconds; zero time = -1)",
        "the compression level is configuration, not wire data: values are compared and re-encoded at the default level"],
    trusted_base=[],
)
CFG["manifest"] = dict(
    text="Proof: Lean theorems for ALL values / byte strings / versions / schemas: every put/get pair of packet_encoder.go and "
         "packet_decoder.go inverts (big-endian ints, zig-zag varint = (x<<1)^(x>>63), uvarint canonical base-128, strings / nullable / "
         "compact strings, bytes, arrays, tagged fields), the prep encoder's size is the real encoder's byte count (incl. the varint "
         "length field's reserve+adjust for every stale value); a schema language (primitives, sequence, version conditions, "
         "count-prefixed arrays, int32/varint length fields, CRC fields) with the generic theorems size = |enc| and dec(enc v ++ rest) = (v, rest) "
         "under an explicit decidable well-typedness predicate, hence same bytes on re-encoding; length prefixes and CRCs (IEEE / Castagnoli, "
         "checked against the standard check values) cover exactly the prescribed bytes; Record, RecordBatch (49-byte overhead, all codecs "
         "as a lawful parameter), legacy Message/MessageSet v0/v1 incl. compressed wrappers, magic-byte dispatch. "
         "Tie: constants and the loop-free arithmetic of length_field.go / prep_encoder.go / real_decoder.go are re-translated from /repo "
         "and proved equal to the model on every run; the real prepEncoder/realEncoder/realDecoder are compared byte for byte with the "
         "compiled model on primitive grids, random call sequences and on the recorded call sequence of the real encode and decode of "
         "every request/response type (78 types, every version 0..max, nil/empty/zero/extreme/random values), request frames, records, "
         "batches with every codec and gzip level, message sets; for 76 of the 78 types a hand-written schema (all versions) reproduces the real "
         "bytes through the very interpreters size/enc/dec the theorems are about, and for 74 the schema's decoder returns what the real decode "
         "calls return; a Lean theorem (machine_encode) links the call-sequence machines to the schema interpreters. The property itself is evaluated on the real code for every type x version: "
         "prep length = bytes written, decode(encode v) succeeds and consumes everything, re-encoding gives identical bytes (same multiset of "
         "calls and same length where a Go map fixes no order), decoding again gives an equal value, the decoded value keeps its version.",
    note="Trusted: Lean kernel; tools/extract + GoSem.lean; harness, recording encoder/decoder and line protocol. Modelled not verified: "
         "compression libraries and encoding/binary + hash/crc32 (re-implemented, tied by correspondence). That each body's encode/decode is its schema for ALL values is observed on generated values per type x version "
         "(hand-written schemas validated against recorded call sequences), not proved: there is no static skeleton extraction (the shared "
         "translator takes loop-free integer code only). ProduceRequest and FetchResponse have no schema (their record sets are a union type); "
         "the decoder machine is tied by correspondence only (no Lean theorem links it to dec). Known findings of the pinned tree are listed in known_findings.d/C09.json.",
    technique="Lean 4 proof (structural induction over a schema DSL, omega/simp) + regenerated bridge obligations + byte-level differential "
              "correspondence through a recording packetEncoder/packetDecoder + round-trip oracle on the real code",
)


# ------------------------------------------------------------------------------------------------------------------
# static tie (tools/skel): the skeletons of every encode/decode pair are re-extracted from the Go AST on every run
# (Gen/C09Skel.lean), the obligations of Bridge/C09Skel.lean are regenerated and re-proved (kernel evaluation), and
# Props/C09skel.lean turns every discharged `T_mirror` into the round-trip / sizing theorem of T at every version.
# The names below are PINNED: a type that drops out of the recognised fragment after a source change loses its
# obligation, which then counts as a missing required theorem.
CFG["pregen"] = [["sh", "tools/skel/regen.sh", "{REPO}"]]
CFG["lean_modules"] += ["SaramaVerif.Model.CodecSkel", "SaramaVerif.Props.C09skel", "SaramaVerif.Bridge.C09Skel"]
CFG["lean_support"] += ["SaramaVerif.Gen.C09Skel"]
_SKEL_MIRROR = """
    AbortedTransaction Acl AclCreation AclCreationResponse AclFilter AddOffsetsToTxnRequest AddOffsetsToTxnResponse
    AddPartitionsToTxnRequest AddPartitionsToTxnResponse AlterConfigsRequest AlterConfigsResource
    AlterConfigsResourceResponse AlterConfigsResponse AlterPartitionReassignmentsRequest
    AlterPartitionReassignmentsResponse AlterUserScramCredentialsRequest AlterUserScramCredentialsResponse
    ApiVersionsRequest ApiVersionsResponse ApiVersionsResponseBlock Broker ConfigEntry ConfigSynonym
    ConsumerGroupMemberAssignment ConsumerGroupMemberMetadata CreateAclsRequest CreateAclsResponse
    CreatePartitionsRequest CreatePartitionsResponse CreateTopicsRequest CreateTopicsResponse DeleteAclsRequest
    DeleteAclsResponse DeleteGroupsRequest DeleteGroupsResponse DeleteRecordsRequest DeleteRecordsRequestTopic
    DeleteRecordsResponse DeleteRecordsResponsePartition DeleteRecordsResponseTopic DeleteTopicsRequest
    DeleteTopicsResponse DescribeAclsRequest DescribeAclsResponse DescribeConfigsRequest DescribeConfigsResponse
    DescribeGroupsRequest DescribeGroupsResponse DescribeLogDirsRequest DescribeLogDirsResponse
    DescribeLogDirsResponseDirMetadata DescribeLogDirsResponsePartition DescribeLogDirsResponseTopic
    DescribeUserScramCredentialsRequest DescribeUserScramCredentialsResponse EndTxnRequest EndTxnResponse
    FetchRequest FilterResponse FindCoordinatorRequest FindCoordinatorResponse GroupDescription
    GroupMemberDescription GroupProtocol HeartbeatRequest HeartbeatResponse IncrementalAlterConfigsEntry
    IncrementalAlterConfigsRequest IncrementalAlterConfigsResource IncrementalAlterConfigsResponse
    InitProducerIDRequest InitProducerIDResponse JoinGroupRequest JoinGroupResponse LeaveGroupRequest
    LeaveGroupResponse ListGroupsRequest ListGroupsResponse ListPartitionReassignmentsRequest
    ListPartitionReassignmentsResponse MatchingAcl MetadataRequest MetadataResponse OffsetCommitRequest
    OffsetCommitResponse OffsetFetchRequest OffsetFetchResponse OffsetFetchResponseBlock OffsetRequest OffsetResponse
    OffsetResponseBlock PartitionError PartitionMetadata PartitionOffsetMetadata PartitionReplicaReassignmentsStatus
    ProduceResponse ProduceResponseBlock Record RecordHeader Resource ResourceAcls ResourceResponse
    SaslAuthenticateRequest SaslAuthenticateResponse SaslHandshakeRequest SaslHandshakeResponse
    StickyAssignorUserDataV0 StickyAssignorUserDataV1 SyncGroupRequest SyncGroupResponse Timestamp TopicDetail
    TopicError TopicMetadata TopicPartition TopicPartitionError TxnOffsetCommitRequest TxnOffsetCommitResponse
    alterPartitionReassignmentsErrorBlock fetchRequestBlock offsetCommitRequestBlock offsetRequestBlock
""".split()
_SKEL_SCHEMA = """
    AddOffsetsToTxnRequest AddOffsetsToTxnResponse AddPartitionsToTxnRequest AddPartitionsToTxnResponse
    AlterConfigsRequest AlterConfigsResponse AlterPartitionReassignmentsRequest AlterPartitionReassignmentsResponse
    AlterUserScramCredentialsRequest AlterUserScramCredentialsResponse ApiVersionsRequest ApiVersionsResponse
    ConsumerGroupMemberAssignment ConsumerGroupMemberMetadata ConsumerMetadataRequest ConsumerMetadataResponse
    CreateAclsResponse CreatePartitionsRequest CreatePartitionsResponse CreateTopicsRequest CreateTopicsResponse
    DeleteGroupsRequest DeleteGroupsResponse DeleteRecordsRequest DeleteRecordsResponse DeleteTopicsRequest
    DeleteTopicsResponse DescribeConfigsRequest DescribeConfigsResponse DescribeGroupsRequest DescribeGroupsResponse
    DescribeLogDirsRequest DescribeLogDirsResponse DescribeUserScramCredentialsRequest
    DescribeUserScramCredentialsResponse EndTxnRequest EndTxnResponse FetchRequest FindCoordinatorRequest
    FindCoordinatorResponse HeartbeatRequest HeartbeatResponse IncrementalAlterConfigsRequest
    IncrementalAlterConfigsResponse InitProducerIDRequest InitProducerIDResponse JoinGroupRequest JoinGroupResponse
    LeaveGroupRequest LeaveGroupResponse ListGroupsRequest ListGroupsResponse ListPartitionReassignmentsRequest
    ListPartitionReassignmentsResponse MetadataRequest MetadataResponse OffsetCommitRequest OffsetCommitResponse
    OffsetFetchRequest OffsetFetchResponse OffsetRequest OffsetResponse ProduceResponse Record
    SaslAuthenticateRequest SaslAuthenticateResponse SaslHandshakeRequest SaslHandshakeResponse SyncGroupRequest
    SyncGroupResponse TxnOffsetCommitRequest TxnOffsetCommitResponse
""".split()
_SKEL_STATED = """
    ConsumerMetadataRequest_mirror_upto ConsumerMetadataRequest_mirror_beyond ConsumerMetadataResponse_mirror_upto
    ConsumerMetadataResponse_mirror_beyond CreateAclsRequest_schema_upto CreateAclsRequest_schema_beyond
    DeleteAclsRequest_schema_upto DeleteAclsRequest_schema_beyond DeleteAclsResponse_schema_upto
    DeleteAclsResponse_schema_beyond DescribeAclsRequest_schema_upto DescribeAclsRequest_schema_beyond
    DescribeAclsResponse_schema_upto DescribeAclsResponse_schema_beyond
    alterPartitionReassignmentsBlock_mirror_differs
""".split()
CFG["required_theorems"] += [
    "Props.C09skel.eval_stable", "Props.C09skel.normAt_stable", "Props.C09skel.mirror_all_versions",
    "Props.C09skel.sub_sound", "Props.C09skel.mirror_sound", "Props.C09skel.skel_roundtrip_at",
    "Props.C09skel.skel_roundtrip", "Props.C09skel.skel_roundtrip_upto", "Props.C09skel.skel_reencode"]
CFG["required_theorems"] += ["Bridge.C09Skel.%s_mirror" % t for t in _SKEL_MIRROR]
CFG["required_theorems"] += ["Bridge.C09Skel.%s_schema" % t for t in _SKEL_SCHEMA]
CFG["required_theorems"] += ["Bridge.C09Skel." + t for t in _SKEL_STATED]
CFG["assumptions"][2] = (
    "protocol bodies are tied to the schema theorems twice: (dynamic) through the call sequence their real encode/decode make on "
    "the packetEncoder/packetDecoder for generated values (recorded, interpreted by the model machines and, for 76 of 78 types, "
    "parsed against a hand-written schema per type); (static) through skeletons re-extracted from the Go AST of every "
    "encode/decode pair on every run (tools/skel, stdlib go/ast only, in the trusted base): the skeleton language abstracts "
    "values away (which branch of a value-dependent alternative is taken, that a null count is only written for an empty "
    "collection, that `make` is guarded), keeps version conditions, count statements, loops, push/pop and nested calls")
CFG["trusted_base"] = list(CFG.get("trusted_base", [])) + [
    "tools/skel (Go AST -> Lean skeleton data; statement forms outside its fragment become `unsupported`, never a guess); "
    "cross-checked on every run against the hand-written schemas (schemaTie) which the harness validates against real bytes"]
CFG["manifest"]["text"] += (
    " Static tie (regenerated from /repo on every run): for 125 of the 135 types with an encode/decode pair (77 of the 79 wire "
    "bodies incl. Record and the two consumer-group member types; all but ProduceRequest and FetchResponse, whose record sets stay "
    "hand-modelled) the skeleton of both methods is extracted from the Go AST; Lean proves by kernel evaluation, per type, that at EVERY "
    "version the decode skeleton reads field by field what the encode skeleton writes (T_mirror; a decoder may accept a null array the "
    "encoder never writes) and that the encode skeleton has exactly the fields of the hand-written schema (T_schema, 77 types); generic "
    "theorems (mirror_all_versions, mirror_sound, sub_sound) turn each T_mirror into: what the schema of T.encode writes for a "
    "well-typed value, the schema of T.decode reads back as that value and exactly those bytes, and prep size = bytes written, at every "
    "version (skel_roundtrip). Deviations of the pinned tree are stated and proved instead of hidden (tools/skel/known.txt: "
    "ConsumerMetadataRequest/Response and five ACL bodies agree on their implemented versions only).")
CFG["manifest"]["note"] = CFG["manifest"]["note"].replace(
    "(hand-written schemas validated against recorded call sequences), not proved: there is no static skeleton extraction (the shared "
    "translator takes loop-free integer code only).",
    "(hand-written schemas validated against recorded call sequences) and, statically, tied by skeleton extraction (tools/skel, trusted) "
    "for every type but ProduceRequest / FetchResponse and the record / message-set code; the skeleton abstracts field values, so "
    "value-level facts (which struct field goes where, map iteration order, re-salting) remain observed only.")
CFG["required_theorems"] += ["Props.C09skel.mirror_toFmt_some", "Props.C09skel.skel_roundtrip_total"]
