CFG = dict(
    lean_modules=["SaramaVerif.Model.CodecPrim", "SaramaVerif.Model.CodecFmt", "SaramaVerif.Model.CodecRecords",
                  "SaramaVerif.Model.CodecMachine", "SaramaVerif.Model.CodecSchemas",
                  "SaramaVerif.Lemmas.C09Prim", "SaramaVerif.Lemmas.C09Fmt", "SaramaVerif.Lemmas.C09Records", "SaramaVerif.Lemmas.C09Machine",
                  "SaramaVerif.Props.C09", "SaramaVerif.Bridge.C09"],
    lean_support=["SaramaVerif.GoSem", "SaramaVerif.Gen.C09", "SaramaVerif.Driver.C09"],
    model="C09",
    required_theorems=[
        "Props.C09.int_roundtrip", "Props.C09.varint_roundtrip", "Props.C09.uvarint_roundtrip",
        "Props.C09.varint_zigzag_spec", "Props.C09.uvarint_spec",
        "Props.C09.prim_dec_enc", "Props.C09.prim_size_eq",
        "Props.C09.array_length_roundtrip", "Props.C09.compact_array_length_roundtrip",
        "Props.C09.size_eq_enc_length", "Props.C09.varlen_adjust_exact", "Props.C09.dec_enc",
        "Props.C09.reencode_same_bytes", "Props.C09.gate_spec", "Props.C09.len32_covers", "Props.C09.crc_covers",
        "Props.C09.record_varlen_spec", "Props.C09.record_roundtrip", "Props.C09.batch_length_overhead",
        "Props.C09.batch_crc_covers", "Props.C09.message_crc_covers",
        "Props.C09.recordbatch_roundtrip", "Props.C09.recordbatch_roundtrip_uncompressed",
        "Props.C09.message_roundtrip", "Props.C09.messageset_roundtrip", "Props.C09.messageset_wrapper_inner",
        "Props.C09.records_magic_dispatch", "Props.C09.machine_encode", "Props.C09.machine_prep_fresh",
        "Bridge.C09.recordBatchOverhead_eq", "Bridge.C09.maximumRecordOverhead_eq", "Bridge.C09.magicOffset_eq", "Bridge.C09.attribute_masks_eq",
        "Bridge.C09.tags_distinct", "Bridge.C09.prepPutInt_eq", "Bridge.C09.lengthFieldCheck_eq",
        "Bridge.C09.varintAdjust_eq", "Bridge.C09.prep_pop_varlen", "Bridge.C09.varintCheck_eq",
        "Bridge.C09.compactArrayLength_eq", "Bridge.C09.compactArrayLength_err", "Bridge.C09.arrayLengthGuard_eq"],
    # n = random values per body × version (plus 3 fixed shapes each); scripts and record cases scale in the harness
    n={"quick": 60, "thorough": 1000, "search": 40},
    thorough_seeds=3,
    level="proof",
    assumptions=[
        "compression libraries (gzip, snappy, lz4, zstd) are parameters of the model; theorems assume decompress(compress(x)) = x "
        "on the payloads involved; the harness feeds the model the library's actual answers (including its failures)",
        "encoding/binary (PutUvarint/Uvarint/PutVarint/Varint, BigEndian) and hash/crc32 are re-implemented in the model "
        "(bitwise CRC, fuel-10 varint) and tied by byte-level correspondence, not by translation",
        "protocol bodies are tied to the schema theorems through the call sequence their real encode/decode make on the "
        "packetEncoder/packetDecoder for generated values (recorded, then interpreted by the model machines and, for 76 of 78 types, "
        "parsed against a hand-written schema per type) - not by static extraction of the 275 methods",
        "time.Time/time.Duration fields are compared at the wire granularity (milliseconds; zero time = -1)",
        "the compression level is configuration, not wire data: values are compared and re-encoded at the default level"],
    trusted_base=[],
)
CFG["manifest"] = dict(
    text="Proof: Lean theorems for ALL values / byte strings / versions / schemas: every put/get pair of packet_encoder.go and "
         "packet_decoder.go inverts (big-endian ints, zig-zag varint = (x<<1)^(x>>63), uvarint canonical base-128, strings / nullable / "
         "compact strings, bytes, arrays, tagged fields), the prep encoder's size is the real encoder's byte count (incl. the varint "
         "length field's reserve+adjust for every stale value); a schema language (primitives, sequence, version conditions, "
         "count-prefixed arrays, int32/varint length fields, CRC fields) with the generic theorems size = |enc| and dec(enc v ++ rest) = (v, rest) "
         "under an explicit decidable well-typedness predicate, hence same bytes on re-encoding; length prefixes and CRCs (IEEE / Castagnoli, "
         "checked against the standard check values) cover exactly the prescribed bytes; Record, RecordBatch (49-byte overhead, all codecs "
         "as a lawful parameter), legacy Message/MessageSet v0/v1 incl. compressed wrappers, magic-byte dispatch. "
         "Tie: constants and the loop-free arithmetic of length_field.go / prep_encoder.go / real_decoder.go are re-translated from /repo "
         "and proved equal to the model on every run; the real prepEncoder/realEncoder/realDecoder are compared byte for byte with the "
         "compiled model on primitive grids, random call sequences and on the recorded call sequence of the real encode and decode of "
         "every request/response type (78 types, every version 0..max, nil/empty/zero/extreme/random values), request frames, records, "
         "batches with every codec and gzip level, message sets; for 76 of the 78 types a hand-written schema (all versions) reproduces the real "
         "bytes through the very interpreters size/enc/dec the theorems are about, and for 74 the schema's decoder returns what the real decode "
         "calls return; a Lean theorem (machine_encode) links the call-sequence machines to the schema interpreters. The property itself is evaluated on the real code for every type x version: "
         "prep length = bytes written, decode(encode v) succeeds and consumes everything, re-encoding gives identical bytes (same multiset of "
         "calls and same length where a Go map fixes no order), decoding again gives an equal value, the decoded value keeps its version.",
    note="Trusted: Lean kernel; tools/extract + GoSem.lean; harness, recording encoder/decoder and line protocol. Modelled not verified: "
         "compression libraries and encoding/binary + hash/crc32 (re-implemented, tied by correspondence). That each body's encode/decode is its schema for ALL values is observed on generated values per type x version "
         "(hand-written schemas validated against recorded call sequences), not proved: there is no static skeleton extraction (the shared "
         "translator takes loop-free integer code only). ProduceRequest and FetchResponse have no schema (their record sets are a union type); "
         "the decoder machine is tied by correspondence only (no Lean theorem links it to dec). Known findings of the pinned tree are listed in known_findings.d/C09.json.",
    technique="Lean 4 proof (structural induction over a schema DSL, omega/simp) + regenerated bridge obligations + byte-level differential "
              "correspondence through a recording packetEncoder/packetDecoder + round-trip oracle on the real code",
)
