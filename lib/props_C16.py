CFG = dict(
    lean_modules=["SaramaVerif.Model.ProduceSet", "SaramaVerif.Props.C16", "SaramaVerif.Bridge.C16"],
    lean_support=["SaramaVerif.GoSem", "SaramaVerif.Gen.C16"],
    model="C16",
    required_theorems=[],
    n={"quick": 1500, "thorough": 40000, "search": 3000},
    thorough_seeds=3,
    level="proof",
    assumptions=[],
    trusted_base=[],
)
CFG["manifest"] = dict(text="", note="", technique="")
