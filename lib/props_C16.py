CFG = dict(
    overlay=["c16", "sim"],
    lean_modules=["SaramaVerif.Model.ProduceSet", "SaramaVerif.Lemmas.C16Sets", "SaramaVerif.Lemmas.C16Wire",
                  "SaramaVerif.Props.C16", "SaramaVerif.Bridge.C16"],
    lean_support=["SaramaVerif.GoSem", "SaramaVerif.Gen.C16"],
    model="C16",
    required_theorems=[
        "Props.C16.grown_inv", "Props.C16.count_limit", "Props.C16.batch_bytes_limit", "Props.C16.batch_payload_below_max",
        "Props.C16.single_batch_bound", "Props.C16.request_estimate_limit", "Props.C16.oversize_rejected",
        "Props.C16.dispatch_table", "Props.C16.request_size_margin", "Props.C16.request_size_exact_legacy",
        "Props.C16.request_size_limit", "Props.C16.request_within_margin_accepted",
        "Props.C16.ready_to_flush_table", "Props.C16.ready_when_unconfigured", "Props.C16.never_ready_when_empty",
        "Props.C16.bp_step_inv", "Props.C16.bp_run_inv", "Props.C16.flush_enabled_iff", "Props.C16.flush_timer_armed",
        "Props.C16.timer_fire_enables", "Props.C16.flush_immediate_when_unconfigured", "Props.C16.trigger_enables",
        "Props.C16.handed_over_within_limits",
        "Bridge.C16.producerMessageOverhead_eq", "Bridge.C16.recordBatchOverhead_eq", "Bridge.C16.maximumRecordOverhead_eq",
        "Bridge.C16.maxRequestSizeDefault_eq", "Bridge.C16.runMsgBranch_fits", "Bridge.C16.runMsgBranch_overflow", "Bridge.C16.wouldOverflow_eq",
        "Bridge.C16.readyToFlush_eq", "Bridge.C16.empty_eq", "Bridge.C16.byteSize_eq", "Bridge.C16.dispatch_eq",
        "Bridge.C16.addSize_eq_gen", "Bridge.C16.addAccumulate_eq", "Bridge.C16.dropAccumulate_eq",
        "Bridge.C16.runOutputTail_eq", "Bridge.C16.rollOver_eq"],
    n={"quick": 2500, "thorough": 40000, "search": 3000},
    thorough_seeds=3,
    level="proof",
    assumptions=[
        "scope of this check: produceSet, ProducerMessage.byteSize, the dispatcher's size check, buildRequest+encode sizes and the run loop of ONE brokerProducer driven by the harness "
        "(as partition producers, bridge and broker); arrival time of requests at a broker through the whole pipeline belongs to the pipeline harness",
        "Encoder.Length() == len(Encode()) for the user's encoders (byteSize uses Length, add uses the encoded bytes)",
        "the run-loop model covers wouldOverflow/waitForSpace hand-over, timer, bridge take and partition drops; retry state (currentRetries), shutdown and the epoch roll-over of the "
        "idempotent producer are not part of the fragment",
        "request_size_margin assumes int32-sized fields (each message's size estimate < 2^31) and no compression; compressed requests are only checked against MaxRequestSize on the real bytes",
        "wall-clock latency of the flush timer is observed (the timer fires within 8 s for a 2 ms frequency), not proved"],
    trusted_base=[],
)
CFG["manifest"] = dict(
    text="Proof (Lean, for every sequence of adds, partition drops and run-loop events): a set grown under the broker producer's discipline (first message after a roll-over unchecked, "
         "every further one only when wouldOverflow is false) never holds more than Flush.MaxMessages messages; a partition batch with >= 2 messages has key+value bytes (+26 per message) "
         "below MaxMessageBytes; with >= 2 messages the size estimate stays below MaxRequestSize-10KiB (+49); the dispatcher forwards a message only if byteSize <= MaxMessageBytes; "
         "the encoded size of an uncompressed request is at most estimate + slack (exact for message sets: format 1 is undercounted by 8 bytes per message) and a request is written only "
         "if encode accepts it (<= MaxRequestSize); decision table of readyToFlush; run-loop invariant: output enabled <=> timer fired or readyToFlush, non-empty buffer with a frequency "
         "has its timer armed, no trigger configured => enabled whenever non-empty, every set handed to the bridge satisfies the three limits. "
         "Bridge: wouldOverflow, readyToFlush, empty, byteSize (header loop through its extracted body), the dispatcher checks, the size assignments and accumulators of add/dropPartition, "
         "the message branch (overflow test -> waitForSpace -> add -> timer arming, with its `continue` exits), the loop tail and rollOver of brokerProducer.run, and the constants "
         "producerMessageOverhead / maximumRecordOverhead / recordBatchOverhead / initial MaxRequestSize are re-translated from /repo on every run and proved equal to the model. "
         "Correspondence + oracle: op sequences through the real produceSet with sizes aimed at every limit (+-2) across 9 releases x codecs x Flush/limit combinations, exhaustive boundary grid, "
         "real dispatcher at byteSize = limit-1/limit/limit+1, real buildRequest+encode sizes vs. the model's wire size, and the real brokerProducer.run loop with the harness as producers, "
         "bridge and broker (hand-over, timer, take, drop).",
    note="Trusted: Lean kernel; translator tools/extract + GoSem.lean; harness/line protocol. The control flow of add between the extracted fragments is tied by correspondence. "
         "Known finding: buildRequest panics for a legacy compressed set whose inner message set exceeds MaxRequestSize (26 vs 34 bytes per format-1 message).",
    technique="Lean 4 proof (invariants over inductively defined reachable sets and run-loop event sequences) + regenerated bridge obligations + differential correspondence incl. the real run loop",
)
