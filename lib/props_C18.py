CFG = dict(
    lean_modules=["SaramaVerif.Model.Producer", "SaramaVerif.Props.C01", "SaramaVerif.Props.C18", "SaramaVerif.Model.Feeder", "SaramaVerif.Props.C18c"],
    lean_support=["SaramaVerif.Driver.ProducerTrace"],
    confirm_scenario_diffs=True,
    model="C18",
    overlay=["sim", "c18"],
    required_theorems=["Props.C18c.step_inv", "Props.C18c.consumer_interceptors_once", "Props.C18c.deliver_follows_icept", "Props.C18c.one_ack_per_response", "Props.C18c.nothing_after_closed",
                       "Props.C18.icept_only_first_pass", "Props.C18.producer_interceptors_once", "Props.C18.intercepted_was_submitted",
                       "Props.C01.step_inv", "Props.C01.reachable_inv"],
    n={"quick": 500, "thorough": 8000, "search": 1000},
    thorough_seeds=3,
    timeout={"quick": 600, "thorough": 3000},
    level="proof",
    assumptions=[],
    trusted_base=[],
)
CFG["assumptions"] = [
    "producer side: the interceptor events are part of the producer accounting model (Model.Producer); trace validation ties them to the hooked dispatcher",
    "consumer side: exactly-once application per delivered message (also on the slow-reader path) is decided by the end-to-end oracle with mutating interceptors, not by a theorem (no Lean model of responseFeeder yet)",
    "safelyApplyInterceptor's recover is exercised with panicking interceptors (oracle), modelled as a total step",
]
CFG["manifest"] = dict(
    text="Producer side - proof: for every accepted event sequence of the producer accounting model an interceptor application happens only for a live submitted message on its first pass "
         "(never on a retry, never for an internal marker), never more often than there are interceptors, and a message handed on by the dispatcher has been through the whole chain exactly once; "
         "trace validation ties the model to the hooked dispatcher on every run. Both sides - oracle on the real code: mutating interceptors (each appends a mark) make a second application visible on "
         "returned events, in the broker-side log and on delivered consumer messages; scenarios force retries at any depth, internal chaser markers, the consumer's slow-reader path and panicking interceptors.",
    note="Trusted: Lean kernel, hooks, sim cluster, harness. The consumer half is exploration-level (end-to-end oracle), the producer half is proof + trace validation.",
    technique="Lean 4 invariant proof over the producer event model + trace validation + end-to-end oracle with mutating/panicking interceptors",
)
